package main

// Family "indels": `sam indels` (deprecated) on abstract SAM blocks (spec/SamIndels.tla).
//
// vec: ref [sym], recs [{q, flag, pos, cig, seq}] (as in the family "sam"), thr (threshold)
// obs: err, ins {header, rows [{start, seq [sym], samples [q]}]}, del {header, rows [{start, len, samples [q]}]}

import (
	"bytes"
	"os"
	"strconv"
	"strings"

	"github.com/virus-evolution/gofasta/pkg/sam"
)

func init() {
	families["indels"] = runIndels
}

func parseIndelTable(text string, ins bool) map[string]interface{} {
	res := map[string]interface{}{"header": "", "rows": []interface{}{}}
	ls := lines(text)
	if len(ls) == 0 {
		return res
	}
	res["header"] = ls[0]
	rows := []interface{}{}
	for _, l := range ls[1:] {
		f := strings.Split(l, "\t")
		row := map[string]interface{}{}
		if len(f) != 3 {
			row["bad"] = l
			row["start"] = -1
			rows = append(rows, row)
			continue
		}
		st, err := strconv.Atoi(f[0])
		if err != nil {
			row["bad"] = l
			st = -1
		}
		row["start"] = st
		if ins {
			row["seq"] = symList(f[1])
		} else {
			n, err := strconv.Atoi(f[1])
			if err != nil {
				row["bad"] = l
			}
			row["len"] = n
		}
		smp := []int{}
		for _, s := range splitNonEmpty(f[2], "|") {
			smp = append(smp, nameIndex(s, "q"))
		}
		row["samples"] = smp
		rows = append(rows, row)
	}
	res["rows"] = rows
	return res
}

func runIndels(vec map[string]interface{}) map[string]interface{} {
	samData, _, _ := vecSam(vec)
	obs := map[string]interface{}{}
	var ins, del bytes.Buffer
	// the command announces its deprecation on standard output, which is this worker's result channel
	saved := os.Stdout
	if null, e := os.OpenFile(os.DevNull, os.O_WRONLY, 0); e == nil {
		os.Stdout = null
		defer func() { os.Stdout = saved; null.Close() }()
	}
	err, ok := callWithDeadline(callDeadline, func() error {
		return sam.Indels(bytes.NewReader(samData), &ins, &del, gIntD(vec, "thr", 1))
	})
	if !ok {
		obs["timeout"] = true
		return obs
	}
	obs["err"] = errStr(err)
	obs["ins"] = parseIndelTable(ins.String(), true)
	obs["del"] = parseIndelTable(del.String(), false)
	return obs
}
