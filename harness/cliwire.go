package main

// CLI wiring: the properties are stated for the commands, the bulk of the vectors is run through the exported entry
// points.  For vectors flagged "cli": true the same input is also given to the gofasta binary with the equivalent
// flags, and the observation records whether the two outputs are byte-identical (cli_same) - a mis-wired flag in cmd/
// (two options swapped, a default changed, a flag not passed on) shows up here.

import (
	"os"
	"path/filepath"
	"sort"
	"strconv"
	"strings"
)

type cliCase struct {
	files   map[string][]byte
	args    []string
	outdir  string // compare the files of this directory instead of stdout
	inproc  string // what the entry point produced
	inprocD map[string]string
	outflag string // "-o": also run with the output sent to a file and compare
}

func cliRun(c cliCase) map[string]interface{} {
	work := os.Getenv("VERIF_WORK")
	if work == "" {
		work = os.TempDir()
	}
	dir, err := os.MkdirTemp(work, "cliw-")
	if err != nil {
		die("%v", err)
	}
	defer os.RemoveAll(dir)
	for n, b := range c.files {
		if err := os.WriteFile(filepath.Join(dir, n), b, 0644); err != nil {
			die("%v", err)
		}
	}
	if c.outdir != "" {
		// the output directory exists already and holds longer files under the names that are going to be written
		os.MkdirAll(filepath.Join(dir, c.outdir), 0755)
		for name, txt := range c.inprocD {
			os.WriteFile(filepath.Join(dir, c.outdir, name), []byte(txt+strings.Repeat("STALETAILOFANEARLIERRUN\n", 3)), 0644)
		}
	}
	args := make([]string, len(c.args))
	for i, a := range c.args {
		if strings.HasPrefix(a, "@") {
			a = filepath.Join(dir, a[1:])
		}
		args[i] = a
	}
	r := runBinary(gofastaBin(), nil, nil, callDeadline, args...)
	res := map[string]interface{}{"cli_exit": r.Exit, "cli_timeout": r.Timeout}
	if c.outdir != "" {
		got := map[string]string{}
		fs, _ := filepath.Glob(filepath.Join(dir, c.outdir, "*"))
		sort.Strings(fs)
		for _, f := range fs {
			b, _ := os.ReadFile(f)
			got[filepath.Base(f)] = string(b)
		}
		same := len(got) == len(c.inprocD)
		for k, v := range c.inprocD {
			if got[k] != v {
				same = false
			}
		}
		res["cli_same"] = same
	} else {
		res["cli_same"] = r.Stdout == c.inproc
		if r.Stdout != c.inproc {
			res["cli_out"] = trunc(r.Stdout, 600)
		}
		if c.outflag != "" && r.Exit == 0 && r.Stdout == c.inproc {
			// the same run writing to a file: the file must hold what standard output held
			of := filepath.Join(dir, "cliw-out.txt")
			// the file exists already and is longer than what is going to be written: -o replaces it, nothing of it may remain
			os.WriteFile(of, []byte(strings.Repeat("stale,row,of,an,earlier,run\n", 4+len(c.inproc)/20)), 0644)
			r2 := runBinary(gofastaBin(), nil, nil, callDeadline, append(append([]string{}, args...), c.outflag, of)...)
			b, _ := os.ReadFile(of)
			if r2.Exit != 0 || r2.Timeout || string(b) != c.inproc {
				res["cli_same"] = false
				res["cli_exit"] = r2.Exit
				res["cli_timeout"] = r2.Timeout
				res["cli_out"] = "with " + c.outflag + ": " + trunc(string(b), 600)
			}
		}
	}
	if r.Exit != 0 {
		res["cli_stderr"] = trunc(firstLine(r.Stderr), 200)
	}
	return res
}

func flagInt(args []string, name string, v, unset int) []string {
	if v == unset {
		return args
	}
	return append(args, name, strconv.Itoa(v))
}

var boolForms int

// flagBool renders a boolean switch: bare / absent, or - for every third call - with its value spelt
// out (--flag=true, --flag=false: a switch that is given is not thereby on).
func flagBool(args []string, name string, v bool) []string {
	boolForms++
	if strings.HasPrefix(name, "--") && boolForms%3 == 0 {
		if v {
			return append(args, name+"=true")
		}
		return append(args, name+"=false")
	}
	if v {
		return append(args, name)
	}
	return args
}

func thousandths(t int) string { return strconv.FormatFloat(float64(t)/1000.0, 'f', 3, 64) }
