package main

// Family "gffscan": a GFF3 file given as a sequence of line kinds (spec/GffScan.tla) through gff.ReadGFF.
//
// vec: lines [text]
// obs: gpanic, err (class), version, regions [[id, start, end]], feats [{typ, start, end, strand, phase, attrs [[key, [values]]], id}],
//      idmap [[id, [feature indices]]], fasta [[id, seq]], hasfasta

import (
	"bytes"
	"sort"
	"strings"

	"github.com/virus-evolution/gofasta/pkg/gff"
)

func init() {
	families["gffscan"] = runGffScan
}

func gffErrClass(err error) string {
	if err == nil {
		return ""
	}
	s := err.Error()
	switch {
	case strings.Contains(s, "Error parsing gff version"):
		return "version"
	case strings.Contains(s, "Error parsing gff sequence-region"):
		return "seqreg"
	case strings.Contains(s, "strconv."):
		return "atoi"
	case strings.Contains(s, "wrong number of fields"):
		return "fields"
	case strings.Contains(s, "Error parsing gff SeqID"):
		return "seqid"
	case strings.Contains(s, "Error parsing gff strand"):
		return "strand"
	case strings.Contains(s, "Error parsing gff phase"):
		return "phase"
	case strings.Contains(s, "Error parsing gff attributes"):
		return "attrs"
	}
	return "fasta"
}

func runGffScan(vec map[string]interface{}) map[string]interface{} {
	var b bytes.Buffer
	for _, l := range gList(vec, "lines") {
		b.WriteString(l.(string))
		b.WriteString("\n")
	}
	obs := map[string]interface{}{"gpanic": false, "err": "", "version": "", "regions": []interface{}{}, "feats": []interface{}{},
		"idmap": []interface{}{}, "fasta": []interface{}{}, "hasfasta": false}
	func() {
		defer func() {
			if r := recover(); r != nil {
				obs["gpanic"] = true
			}
		}()
		g, err := gff.ReadGFF(bytes.NewReader(b.Bytes()))
		obs["err"] = gffErrClass(err)
		if err != nil {
			return
		}
		obs["version"] = g.GFF_version
		regs := [][]interface{}{}
		for _, r := range g.SequenceRegions {
			regs = append(regs, []interface{}{r.Seqid, r.Start, r.End})
		}
		sort.Slice(regs, func(i, j int) bool { return regs[i][0].(string) < regs[j][0].(string) })
		obs["regions"] = regs
		feats := []interface{}{}
		for _, f := range g.Features {
			attrs := [][]interface{}{}
			for k, v := range f.Attributes {
				attrs = append(attrs, []interface{}{k, v})
			}
			sort.Slice(attrs, func(i, j int) bool { return attrs[i][0].(string) < attrs[j][0].(string) })
			id := ""
			if f.HasAttribute("ID") {
				id = f.Attributes["ID"][0]
			}
			feats = append(feats, map[string]interface{}{"typ": f.Type, "start": f.Start, "end": f.End, "strand": f.Strand, "phase": f.Phase, "attrs": attrs, "id": id})
		}
		obs["feats"] = feats
		idm := [][]interface{}{}
		for k, v := range g.IDmap {
			idm = append(idm, []interface{}{k, v})
		}
		sort.Slice(idm, func(i, j int) bool { return idm[i][0].(string) < idm[j][0].(string) })
		obs["idmap"] = idm
		fa := [][]interface{}{}
		for k, v := range g.FASTA {
			fa = append(fa, []interface{}{k, symList(v.Seq)})
		}
		sort.Slice(fa, func(i, j int) bool { return fa[i][0].(string) < fa[j][0].(string) })
		obs["fasta"] = fa
		obs["hasfasta"] = g.FASTA != nil
	}()
	return obs
}
