package main

// Family "gbscan": a GenBank flat file whose FEATURES table is a sequence of line kinds (spec/GenbankScan.tla) through
// genbank.ReadGenBank.
//
// vec: lines [text]                       (the text of every line is given by the specification's kind table)
// obs: gpanic, feats [{feat, loc, info [[key, value]...] sorted by key}], origin

import (
	"bytes"
	"sort"

	"github.com/virus-evolution/gofasta/pkg/genbank"
)

func init() {
	families["gbscan"] = runGbScan
}

func runGbScan(vec map[string]interface{}) map[string]interface{} {
	var b bytes.Buffer
	b.WriteString("LOCUS       TEST                      12 bp    DNA     linear   VRL 01-JAN-2020\n")
	b.WriteString("FEATURES             Location/Qualifiers\n")
	for _, l := range gList(vec, "lines") {
		b.WriteString(l.(string))
		b.WriteString("\n")
	}
	b.WriteString("ORIGIN\n        1 acgtacgtac gt\n//\n")
	obs := map[string]interface{}{"gpanic": false, "feats": []interface{}{}, "origin": "", "err": ""}
	func() {
		defer func() {
			if r := recover(); r != nil {
				obs["gpanic"] = true
			}
		}()
		gb, err := genbank.ReadGenBank(bytes.NewReader(b.Bytes()))
		obs["err"] = errStr(err)
		feats := []interface{}{}
		for _, f := range gb.FEATURES {
			info := [][]string{}
			for k, v := range f.Info {
				info = append(info, []string{k, v})
			}
			sort.Slice(info, func(i, j int) bool { return info[i][0] < info[j][0] })
			feats = append(feats, map[string]interface{}{"feat": f.Feature, "loc": f.Location.Representation, "info": info})
		}
		obs["feats"] = feats
		obs["origin"] = string(gb.ORIGIN)
	}()
	return obs
}
