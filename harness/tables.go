package main

// dump-tables: the nucleotide / codon tables exactly as the running code has them (C17).

import (
	"math/rand"
	"os"
	"strings"

	"github.com/virus-evolution/gofasta/pkg/alphabet"
	"github.com/virus-evolution/gofasta/pkg/encoding"
	"github.com/virus-evolution/gofasta/pkg/fastaio"
)

const iupac15 = "ACGTRYSWKMBDHVN"
const chars32 = "ACGTRYSWKMBDHVNacgtryswkmbdhvn-?"

func chars(s string) []string {
	out := make([]string, len(s))
	for i := 0; i < len(s); i++ {
		out[i] = string(s[i])
	}
	return out
}

func cmdDumpTables(args []string) {
	out := mustCreate(args[0])
	defer out.Close()
	w := newObsWriter(out)
	seed := seedFromEnv()
	rng := rand.New(rand.NewSource(seed))

	cd := alphabet.MakeCodonDict()
	for _, a := range iupac15 {
		for _, b := range iupac15 {
			for _, c := range iupac15 {
				codon := string([]rune{a, b, c})
				o := map[string]interface{}{"kind": "codon", "id": "codon-" + codon, "c": chars(codon)}
				if v, ok := cd[codon]; ok {
					o["dict"] = v
				} else {
					o["dict"] = ""
				}
				if t, err := alphabet.Translate(codon, true); err != nil {
					o["strict"] = "ERR"
				} else {
					o["strict"] = t
				}
				if t, err := alphabet.Translate(codon, false); err != nil {
					o["lax"] = "ERR"
				} else {
					o["lax"] = t
				}
				w.write(o)
			}
		}
	}
	// translation of a longer sequence is codon-wise
	for n := 0; n < 40; n++ {
		L := 3 * (1 + rng.Intn(6))
		var sb strings.Builder
		for i := 0; i < L; i++ {
			sb.WriteByte(iupac15[rng.Intn(len(iupac15))])
		}
		s := sb.String()
		o := map[string]interface{}{"kind": "transseq", "id": "transseq-" + s, "s": chars(s)}
		if t, err := alphabet.Translate(s, false); err != nil {
			o["lax"] = []string{"ERR"}
		} else {
			o["lax"] = chars(t)
		}
		w.write(o)
	}
	for _, s := range []string{"A", "AC", "ACGT", "ACGTA"} {
		_, err := alphabet.Translate(s, false)
		w.write(map[string]interface{}{"kind": "transmod3", "id": "transmod3-" + s, "n": len(s), "err": err != nil})
	}

	ca := alphabet.MakeCompArray()
	eca := alphabet.MakeEncodedCompArray()
	ea := encoding.MakeEncodingArray()
	eah := encoding.MakeEncodingArrayHardGaps()
	da := encoding.MakeDecodingArray()
	sa := encoding.MakeScoreArray()
	esa := encoding.MakeEncodedScoreArray()
	for i := 0; i < len(chars32); i++ {
		c := chars32[i]
		o := map[string]interface{}{"kind": "char", "id": "char-" + string(c), "c": string(c),
			"comp": byteStr(ca[c]), "enc": int(ea[c]), "enchard": int(eah[c]),
			"dec": da[ea[c]], "dechard": da[eah[c]],
			"enccomp": int(eca[ea[c]]), "score": int(sa[c]), "encscore": int(esa[ea[c]])}
		w.write(o)
	}
	// every byte that is not one of the 32 accepted characters must be rejected by the encoders
	accepted := map[byte]bool{}
	for i := 0; i < len(chars32); i++ {
		accepted[chars32[i]] = true
	}
	nzEnc, nzHard, nzComp := []int{}, []int{}, []int{}
	for b := 0; b < 256; b++ {
		if accepted[byte(b)] {
			continue
		}
		if ea[b] != 0 {
			nzEnc = append(nzEnc, b)
		}
		if eah[b] != 0 {
			nzHard = append(nzHard, b)
		}
		if ca[b] != 0 {
			nzComp = append(nzComp, b)
		}
	}
	w.write(map[string]interface{}{"kind": "others", "id": "others", "nzenc": nzEnc, "nzhard": nzHard, "nzcomp": nzComp})
	// decoding array: which codes decode to something
	for b := 0; b < 256; b++ {
		if da[b] != "" {
			w.write(map[string]interface{}{"kind": "decode", "id": "decode-" + itoa(b), "code": b, "sym": da[b]})
		}
	}

	// record-level complement / reverse complement, text and encoded
	for n := 0; n < 60; n++ {
		L := 1 + rng.Intn(12)
		var sb strings.Builder
		for i := 0; i < L; i++ {
			sb.WriteByte(chars32[rng.Intn(len(chars32))])
		}
		s := sb.String()
		fr := fastaio.FastaRecord{ID: "x", Seq: s}
		efr := fr.Encode()
		o := map[string]interface{}{"kind": "seq", "id": "seq-" + s, "s": chars(s),
			"comp":      chars(alphabet.Complement(s)),
			"revcomp":   chars(alphabet.ReverseComplement(s)),
			"frcomp":    chars(fr.Complement().Seq),
			"frrevcomp": chars(fr.ReverseComplement().Seq),
			"ecomp":     chars(efr.Complement().Decode().Seq),
			"erevcomp":  chars(efr.ReverseComplement().Decode().Seq),
			"encdec":    chars(efr.Decode().Seq),
			"rcrc":      chars(alphabet.ReverseComplement(alphabet.ReverseComplement(s))),
		}
		w.write(o)
	}
	w.flush()
	_ = os.Stdout
}

func byteStr(b byte) string {
	if b == 0 {
		return ""
	}
	return string([]byte{b})
}
