package main

import (
	"fmt"
	"os"
)

var commands = map[string]func([]string){}

func register(name string, f func([]string)) { commands[name] = f }

func main() {
	register("dump-tables", cmdDumpTables)
	register("run", cmdRun)
	register("worker", cmdWorker)
	register("gen-rand", cmdGenRand)
	if len(os.Args) < 2 {
		fmt.Fprintln(os.Stderr, "usage: vharness <cmd> ...")
		os.Exit(2)
	}
	f, ok := commands[os.Args[1]]
	if !ok {
		fmt.Fprintln(os.Stderr, "unknown command", os.Args[1])
		os.Exit(2)
	}
	f(os.Args[2:])
}
