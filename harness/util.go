package main

import (
	"bufio"
	"encoding/json"
	"fmt"
	"io"
	"os"
	"strconv"
	"strings"
	"sync"
)

func die(format string, a ...interface{}) {
	fmt.Fprintf(os.Stderr, "vharness: "+format+"\n", a...)
	os.Exit(2)
}

func mustCreate(p string) *os.File {
	f, err := os.Create(p)
	if err != nil {
		die("%v", err)
	}
	return f
}

func itoa(i int) string { return strconv.Itoa(i) }

func seedFromEnv() int64 {
	s := os.Getenv("VERIF_SEED")
	if s == "" {
		return 1
	}
	v, err := strconv.ParseInt(s, 10, 64)
	if err != nil {
		return 1
	}
	return v
}

type obsWriter struct {
	mu sync.Mutex
	w  *bufio.Writer
	f  *os.File
	n  int
}

func newObsWriter(f *os.File) *obsWriter { return &obsWriter{w: bufio.NewWriterSize(f, 1<<16), f: f} }

func (o *obsWriter) write(v interface{}) {
	b, err := json.Marshal(v)
	if err != nil {
		die("marshal: %v", err)
	}
	o.mu.Lock()
	o.w.Write(b)
	o.w.WriteByte('\n')
	o.n++
	o.mu.Unlock()
}

func (o *obsWriter) flush() {
	o.mu.Lock()
	o.w.Flush()
	o.mu.Unlock()
}

// readVectors reads an ndjson file whose lines are either JSON objects or JSON strings that
// contain a JSON object (what TLC's CSVWrite("%1$s", <<ToJson(v)>>, f) produces).
func readVectors(path string) []map[string]interface{} {
	f, err := os.Open(path)
	if err != nil {
		die("%v", err)
	}
	defer f.Close()
	var out []map[string]interface{}
	r := bufio.NewReaderSize(f, 1<<20)
	for {
		line, err := r.ReadString('\n')
		line = strings.TrimSpace(line)
		if line != "" {
			var raw interface{}
			if e := json.Unmarshal([]byte(line), &raw); e != nil {
				die("bad vector line: %v: %.80s", e, line)
			}
			if s, ok := raw.(string); ok {
				if e := json.Unmarshal([]byte(s), &raw); e != nil {
					die("bad inner vector: %v", e)
				}
			}
			m, ok := raw.(map[string]interface{})
			if !ok {
				die("vector is not an object: %.80s", line)
			}
			out = append(out, m)
		}
		if err == io.EOF {
			break
		}
		if err != nil {
			die("%v", err)
		}
	}
	return out
}

// ---- accessors on decoded JSON -------------------------------------------------

func gInt(m map[string]interface{}, k string) int {
	v, ok := m[k]
	if !ok {
		die("vector lacks %q: %v", k, m)
	}
	switch x := v.(type) {
	case float64:
		return int(x)
	case string:
		i, err := strconv.Atoi(x)
		if err != nil {
			die("field %q not int: %v", k, v)
		}
		return i
	case bool:
		if x {
			return 1
		}
		return 0
	}
	die("field %q not int: %v", k, v)
	return 0
}

func gIntD(m map[string]interface{}, k string, d int) int {
	if _, ok := m[k]; !ok {
		return d
	}
	return gInt(m, k)
}

func gBool(m map[string]interface{}, k string) bool {
	v, ok := m[k]
	if !ok {
		return false
	}
	switch x := v.(type) {
	case bool:
		return x
	case float64:
		return x != 0
	}
	return false
}

func gStr(m map[string]interface{}, k string) string {
	v, ok := m[k]
	if !ok {
		return ""
	}
	s, _ := v.(string)
	return s
}

func gList(m map[string]interface{}, k string) []interface{} {
	v, ok := m[k]
	if !ok || v == nil {
		return nil
	}
	l, ok := v.([]interface{})
	if !ok {
		die("field %q not a list: %v", k, v)
	}
	return l
}

func gMap(v interface{}) map[string]interface{} {
	m, ok := v.(map[string]interface{})
	if !ok {
		die("not an object: %v", v)
	}
	return m
}

// joinSyms turns ["A","C"] into "AC".
func joinSyms(l []interface{}) string {
	var sb strings.Builder
	for _, x := range l {
		s, _ := x.(string)
		sb.WriteString(s)
	}
	return sb.String()
}

func gSeq(m map[string]interface{}, k string) string { return joinSyms(gList(m, k)) }

func intList(l []interface{}) []int {
	out := make([]int, len(l))
	for i, x := range l {
		f, _ := x.(float64)
		out[i] = int(f)
	}
	return out
}
