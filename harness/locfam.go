package main

// Family "loc": GenBank feature locations (spec/Location.tla) through genbank.Location.GetPositions / IsReverse.
//
// vec: text (the location as written in a feature table), tree (its abstract form, used by the validator only)
// obs: class "ok"|"error"|"panic", pos [int], rev "forward"|"reverse"|"error"|"panic"

import (
	"github.com/virus-evolution/gofasta/pkg/genbank"
)

func init() {
	families["loc"] = runLocFam
}

func runLocFam(vec map[string]interface{}) map[string]interface{} {
	loc := genbank.Location{Representation: gStr(vec, "text")}
	obs := map[string]interface{}{"class": "ok", "pos": []int{}, "rev": ""}
	func() {
		defer func() {
			if r := recover(); r != nil {
				obs["class"] = "panic"
			}
		}()
		p, err := loc.GetPositions()
		if err != nil {
			obs["class"] = "error"
			return
		}
		if p == nil {
			p = []int{}
		}
		obs["pos"] = p
	}()
	func() {
		defer func() {
			if r := recover(); r != nil {
				obs["rev"] = "panic"
			}
		}()
		rev, err := loc.IsReverse()
		switch {
		case err != nil:
			obs["rev"] = "error"
		case rev:
			obs["rev"] = "reverse"
		default:
			obs["rev"] = "forward"
		}
	}()
	return obs
}
