package main

// Family "cli": the gofasta binary built from /repo's working tree, for the properties that are
// about the process: exit status, stdin, stdout of toPairAlign, failing output files, fresh map
// seeds per run.
//
// vec: files  {name: {"text": "..."} | {"kind": "pipe-sam|pipe-msa|pipe-ref|pipe-gb|pipe-gff", "N": n, "badat": k}}
//      args   [...]            "@name" is replaced by the path of that file in the scratch directory
//      stdin  "@name" | ""     file piped to standard input
//      env    {K: V}
//      reps   n                number of runs (fresh process each)
//      base   {args, env}      optional reference invocation (e.g. -t 1, no jitter) run once first
//      outfile name            compare this output file instead of stdout
//      strace {file, k}        run under strace and make the k-th write(2) to <file> fail with ENOSPC
//      stdout_file name        connect standard output to this file (strace can then fault it)
//      race   bool             use the -race build
//
// obs: runs [{exit, timeout, same_as_first, same_as_base}], ndistinct, out (first run, truncated),
//      order (query indices in the first output), base_exit, stderr (first run, truncated)

import (
	"crypto/sha1"
	"encoding/hex"
	"os"
	"path/filepath"
	"strings"
	"time"
)

func init() {
	families["cli"] = runCli
}

func materialise(dir string, files map[string]interface{}) {
	for name, spec := range files {
		m := gMap(spec)
		var data []byte
		if t, ok := m["text"]; ok {
			data = []byte(t.(string))
		} else {
			n := gIntD(m, "N", 3)
			badAt := gIntD(m, "badat", -1)
			qs := pipeQueries(n)
			switch gStr(m, "kind") {
			case "pipe-ref":
				data = renderFasta([]rec{{"ref", pipeRef}}, 0, false)
			case "pipe-msa":
				if badAt >= 0 && badAt < n {
					b := []byte(qs[badAt].seq)
					b[5] = 'Z'
					qs[badAt].seq = string(b)
				}
				data = renderFasta(qs, gIntD(m, "wrap", 0), false)
			case "pipe-msa-ref":
				data = renderFasta(append([]rec{{"ref", pipeRef}}, qs...), 0, false)
			case "pipe-sam":
				var srecs []samRec
				for i, q := range qs {
					cig := itoa(len(pipeRef)) + "M"
					if badAt == i {
						cig = "5M"
					}
					srecs = append(srecs, samRec{name: q.name, pos: 0, cigar: cig, seq: q.seq})
				}
				data = renderSam("ref", len(pipeRef), srecs)
			case "pipe-gb":
				data = pipeGb
			default:
				die("unknown file kind %q", gStr(m, "kind"))
			}
		}
		if err := os.WriteFile(filepath.Join(dir, name), data, 0644); err != nil {
			die("%v", err)
		}
	}
}

func substArgs(dir string, l []interface{}) []string {
	out := make([]string, len(l))
	for i, x := range l {
		s, _ := x.(string)
		if strings.HasPrefix(s, "@") {
			s = filepath.Join(dir, s[1:])
		}
		out[i] = s
	}
	return out
}

func envList(m map[string]interface{}) []string {
	var out []string
	for _, k := range sortedKeys(m) {
		s, _ := m[k].(string)
		out = append(out, k+"="+s)
	}
	return out
}

func hashOf(s string) string {
	h := sha1.Sum([]byte(s))
	return hex.EncodeToString(h[:8])
}

func trunc(s string, n int) string {
	if len(s) > n {
		return s[:n] + "...[truncated]"
	}
	return s
}

func runCli(vec map[string]interface{}) map[string]interface{} {
	work := os.Getenv("VERIF_WORK")
	if work == "" {
		work = os.TempDir()
	}
	dir, err := os.MkdirTemp(work, "cli-")
	if err != nil {
		die("%v", err)
	}
	defer os.RemoveAll(dir)
	if f, ok := vec["files"]; ok {
		materialise(dir, gMap(f))
	}
	bin := gofastaBin()
	if gBool(vec, "race") {
		bin += "-race"
	}
	deadline := time.Duration(gIntD(vec, "deadline_s", 20)) * time.Second * deadlineScale
	outfile := gStr(vec, "outfile")
	mainRun := false
	invoke := func(args []interface{}, env map[string]interface{}, stdinName string, strace map[string]interface{}) (binResult, string) {
		a := substArgs(dir, args)
		var stdin []byte
		if stdinName != "" {
			stdin, _ = os.ReadFile(filepath.Join(dir, strings.TrimPrefix(stdinName, "@")))
		}
		if outfile != "" {
			os.Remove(filepath.Join(dir, outfile))
		}
		var res binResult
		stdoutPath := ""
		if sf := gStr(vec, "stdout_file"); sf != "" {
			stdoutPath = filepath.Join(dir, sf)
		}
		if sm := gStr(vec, "stdout_mode"); sm != "" && mainRun {
			stdoutPath = "@" + sm // "slow" / "closed" (the run under test only, not the base run)
		}
		if strace != nil {
			target := filepath.Join(dir, gStr(strace, "file"))
			sargs := []string{"-f", "-o", "/dev/null", "-e", "trace=write", "-e",
				"inject=write:error=ENOSPC:when=" + itoa(gInt(strace, "k")), "-P", target, bin}
			sargs = append(sargs, a...)
			res = runBinaryTo(stdoutPath, "strace", stdin, envList(env), deadline, sargs...)
		} else if cpus := gStr(vec, "taskset"); cpus != "" && mainRun {
			// restrict the processors the process may run on (runtime.NumCPU follows the affinity mask, GOMAXPROCS does not change it)
			res = runBinaryTo(stdoutPath, "taskset", stdin, envList(env), deadline, append([]string{"-c", cpus, bin}, a...)...)
		} else {
			res = runBinaryTo(stdoutPath, bin, stdin, envList(env), deadline, a...)
		}
		out := res.Stdout
		if stdoutPath != "" && !strings.HasPrefix(stdoutPath, "@") {
			b, _ := os.ReadFile(stdoutPath)
			out = string(b)
		}
		if outfile != "" {
			b, _ := os.ReadFile(filepath.Join(dir, outfile))
			out = string(b)
		}
		return res, out
	}
	envOf := func(m map[string]interface{}) map[string]interface{} {
		if e, ok := m["env"]; ok && e != nil {
			return gMap(e)
		}
		return map[string]interface{}{}
	}
	var strace map[string]interface{}
	if s, ok := vec["strace"]; ok && s != nil {
		strace = gMap(s)
	}
	obs := map[string]interface{}{}
	baseOut := ""
	hasBase := false
	if b, ok := vec["base"]; ok && b != nil {
		bm := gMap(b)
		r, o := invoke(gList(bm, "args"), envOf(bm), gStr(vec, "stdin"), nil)
		obs["base_exit"] = r.Exit
		obs["base_timeout"] = r.Timeout
		baseOut = o
		hasBase = true
	}
	reps := gIntD(vec, "reps", 1)
	runs := []interface{}{}
	first := ""
	distinct := map[string]bool{}
	mainRun = true
	for i := 0; i < reps; i++ {
		r, o := invoke(gList(vec, "args"), envOf(vec), gStr(vec, "stdin"), strace)
		if i == 0 {
			first = o
			obs["out"] = trunc(o, 4000)
			obs["stderr"] = trunc(r.Stderr, 600)
			obs["outlen"] = len(o)
			_, _, order := splitRecords(gStr(vec, "parse"), o, gIntD(vec, "hdrlines", 0))
			if gStr(vec, "parse") != "" {
				obs["order"] = order
			}
			obs["race_report"] = strings.Contains(r.Stderr, "DATA RACE")
		} else if strings.Contains(r.Stderr, "DATA RACE") {
			obs["race_report"] = true
		}
		distinct[hashOf(o)] = true
		runs = append(runs, map[string]interface{}{"exit": r.Exit, "timeout": r.Timeout,
			"same_as_first": o == first, "same_as_base": !hasBase || o == baseOut,
			"panicked": strings.Contains(r.Stderr, "panic:") || strings.Contains(r.Stderr, "fatal error:")})
	}
	obs["runs"] = runs
	obs["ndistinct"] = len(distinct)
	return obs
}
