package main

// run <family> <vectors.ndjson> <obs.ndjson> [-j N]
//
// Drives the real gofasta code on every vector.  gofasta runs its stages in goroutines of its
// own, so a panic inside one cannot be recovered by the caller: vectors are therefore executed
// in worker sub-processes (this binary re-executed).  A worker that dies is attributed to the
// vector it was executing (observed.panic), a call that does not return within the deadline is
// recorded as observed.timeout; both are observations, never harness failures.

import (
	"bufio"
	"bytes"
	"encoding/json"
	"fmt"
	"os"
	"os/exec"
	"runtime"
	"sort"
	"strconv"
	"strings"
	"sync"
	"time"
)

type runner func(vec map[string]interface{}) map[string]interface{}

var families = map[string]runner{}

var onePerProcess = map[string]bool{"pipe": true}

// callDeadline bounds one call into gofasta (and one vector in a worker).  A vector that exceeds it is re-run alone with
// ten times the time before it is reported as a hang (deadlineScale): a machine shared with other work can be slow
// without anything hanging, and a verdict may not depend on that.
var deadlineScale = func() time.Duration {
	if n, err := strconv.Atoi(os.Getenv("VERIF_DEADLINE_SCALE")); err == nil && n > 1 {
		return time.Duration(n)
	}
	return 1
}()
var callDeadline = 20 * time.Second * deadlineScale

func cmdRun(args []string) {
	if len(args) < 3 {
		die("usage: run <family> <vectors> <obs> [-j N]")
	}
	fam, in, out := args[0], args[1], args[2]
	j := runtime.NumCPU()
	for i := 3; i+1 < len(args); i++ {
		if args[i] == "-j" {
			j, _ = strconv.Atoi(args[i+1])
		}
	}
	if _, ok := families[fam]; !ok {
		die("unknown family %q", fam)
	}
	vecs := readVectors(in)
	n := len(vecs)
	if j > n {
		j = n
	}
	if j < 1 {
		j = 1
	}
	// contiguous chunks so that the output keeps vector order
	type chunk struct{ lo, hi int }
	chunks := make([]chunk, 0, j)
	per := (n + j - 1) / j
	for lo := 0; lo < n; lo += per {
		hi := lo + per
		if hi > n {
			hi = n
		}
		chunks = append(chunks, chunk{lo, hi})
	}
	results := make([][][]byte, len(chunks))
	var wg sync.WaitGroup
	for ci, c := range chunks {
		wg.Add(1)
		go func(ci int, c chunk) {
			defer wg.Done()
			// each chunk gets its own vector file: a worker restarted after a crash parses only that
			cf := in + ".chunk" + strconv.Itoa(ci)
			fh := mustCreate(cf)
			bw := bufio.NewWriterSize(fh, 1<<20)
			for _, v := range vecs[c.lo:c.hi] {
				b, _ := json.Marshal(v)
				bw.Write(b)
				bw.WriteByte('\n')
			}
			bw.Flush()
			fh.Close()
			results[ci] = superviseChunk(fam, cf, 0, c.hi-c.lo, vecs[c.lo:c.hi])
			os.Remove(cf)
		}(ci, c)
	}
	wg.Wait()
	f := mustCreate(out)
	w := bufio.NewWriterSize(f, 1<<20)
	for _, r := range results {
		for _, line := range r {
			w.Write(line)
			w.WriteByte('\n')
		}
	}
	w.Flush()
	f.Close()
}

// superviseChunk runs vectors lo..hi-1 in worker processes, restarting after a crash.
func superviseChunk(fam, in string, lo, hi int, vecs []map[string]interface{}) [][]byte {
	var lines [][]byte
	next := lo
	for next < hi {
		// families whose runs may leave goroutines behind that still fire hooks (an error run returns while its
		// stages are alive) get a fresh process per vector, so that no event leaks into the next vector's trace
		upto := hi
		if onePerProcess[fam] {
			upto = next + 1
		}
		cmd := exec.Command(os.Args[0], "worker", fam, in, strconv.Itoa(next), strconv.Itoa(upto))
		cmd.Env = os.Environ()
		var stderr bytes.Buffer
		cmd.Stderr = &stderr
		stdout, err := cmd.StdoutPipe()
		if err != nil {
			die("%v", err)
		}
		if err := cmd.Start(); err != nil {
			die("%v", err)
		}
		sc := bufio.NewScanner(stdout)
		sc.Buffer(make([]byte, 0, 1<<20), 1<<28)
		for sc.Scan() {
			b := append([]byte(nil), sc.Bytes()...)
			lines = append(lines, b)
			next++
		}
		werr := cmd.Wait()
		_ = werr
		if strings.Contains(stderr.String(), "WARNING: DATA RACE") {
			if lf := os.Getenv("VERIF_RACE_LOG"); lf != "" {
				if f, e := os.OpenFile(lf, os.O_APPEND|os.O_CREATE|os.O_WRONLY, 0644); e == nil {
					f.WriteString(stderr.String())
					f.Close()
				}
			}
		}
		if next < upto {
			// the worker died while vector `next` was in flight.  It may have been killed by a
			// goroutine leaked by an earlier vector, so the culprit is re-run alone first.
			if b := runAlone(fam, in, next); b != nil {
				lines = append(lines, b)
			} else {
				msg := firstPanicLine(stderr.String())
				o := map[string]interface{}{"vec": vecs[next], "id": vecs[next]["id"],
					"obs": map[string]interface{}{"panic": true, "timeout": false, "msg": msg}}
				b, _ := json.Marshal(o)
				lines = append(lines, b)
			}
			next++
		}
	}
	// confirmation of timeouts: a vector that did not finish in time is run once more, alone, with ten times the deadline
	// (at most 8 per chunk); only if that run times out too does the observation stand
	if deadlineScale == 1 {
		confirmed := 0
		for k, b := range lines {
			if confirmed >= 8 || !bytes.Contains(b, []byte(`"timeout":true`)) {
				continue
			}
			confirmed++
			os.Setenv("VERIF_DEADLINE_SCALE", "10")
			nb := runAlone(fam, in, lo+k)
			os.Unsetenv("VERIF_DEADLINE_SCALE")
			if nb != nil {
				lines[k] = nb
			}
		}
	}
	return lines
}

// runAlone executes one vector in a fresh worker; nil means that worker died too.
func runAlone(fam, in string, k int) []byte {
	cmd := exec.Command(os.Args[0], "worker", fam, in, strconv.Itoa(k), strconv.Itoa(k+1))
	cmd.Env = os.Environ()
	out, _ := cmd.Output()
	line := bytes.TrimSpace(out)
	if len(line) == 0 || bytes.Contains(line, []byte("\n")) {
		return nil
	}
	var probe map[string]interface{}
	if json.Unmarshal(line, &probe) != nil {
		return nil
	}
	return append([]byte(nil), line...)
}

func firstPanicLine(s string) string {
	for _, l := range strings.Split(s, "\n") {
		if strings.HasPrefix(l, "panic:") || strings.HasPrefix(l, "fatal error:") {
			if len(l) > 200 {
				l = l[:200]
			}
			return l
		}
	}
	if len(s) > 200 {
		s = s[len(s)-200:]
	}
	return s
}

func cmdWorker(args []string) {
	fam, in := args[0], args[1]
	lo, _ := strconv.Atoi(args[2])
	hi, _ := strconv.Atoi(args[3])
	run := families[fam]
	vecs := readVectors(in)
	out := bufio.NewWriterSize(os.Stdout, 1<<16)
	// gofasta writes progress to stderr; keep the worker's stderr for panics only
	for i := lo; i < hi; i++ {
		vec := vecs[i]
		done := make(chan map[string]interface{}, 1)
		go func() { done <- run(vec) }()
		var obs map[string]interface{}
		select {
		case obs = <-done:
			if obs == nil {
				obs = map[string]interface{}{}
			}
			if _, ok := obs["timeout"]; !ok {
				obs["timeout"] = false
			}
			obs["panic"] = false
		case <-time.After(callDeadline):
			obs = map[string]interface{}{"timeout": true, "panic": false}
		}
		b, err := json.Marshal(map[string]interface{}{"id": vec["id"], "vec": vec, "obs": obs})
		if err != nil {
			die("marshal obs: %v", err)
		}
		out.Write(b)
		out.WriteByte('\n')
		out.Flush()
	}
}

// callWithDeadline runs f in a goroutine; ok=false means it did not return in time (a hang).
func callWithDeadline(d time.Duration, f func() error) (err error, ok bool) {
	ch := make(chan error, 1)
	go func() { ch <- f() }()
	select {
	case e := <-ch:
		return e, true
	case <-time.After(d):
		return nil, false
	}
}

func errStr(e error) string {
	if e == nil {
		return ""
	}
	return e.Error()
}

// runBinary executes the gofasta binary built from /repo's working tree.
type binResult struct {
	Stdout  string
	Stderr  string
	Exit    int
	Timeout bool
}

func gofastaBin() string {
	p := os.Getenv("VERIF_GOFASTA")
	if p == "" {
		die("VERIF_GOFASTA not set")
	}
	return p
}

func runBinary(bin string, stdin []byte, env []string, deadline time.Duration, args ...string) binResult {
	return runBinaryTo("", bin, stdin, env, deadline, args...)
}

// runBinaryTo is runBinary with standard output connected directly to a file (so that a write
// fault injected on that file hits the process's own write(2) calls).
func runBinaryTo(stdoutPath, bin string, stdin []byte, env []string, deadline time.Duration, args ...string) binResult {
	cmd := exec.Command(bin, args...)
	cmd.Env = append(os.Environ(), env...)
	if stdin != nil {
		cmd.Stdin = bytes.NewReader(stdin)
	}
	var so, se bytes.Buffer
	cmd.Stdout = &so
	var pw *os.File
	slowDone := make(chan bool, 1)
	if stdoutPath == "@closed" || stdoutPath == "@slow" {
		// standard output is a pipe: its reader has gone away already (EPIPE / SIGPIPE on the first write), or is slower than the
		// writer (the pipe is full when the command is about to finish)
		pr, w, err := os.Pipe()
		if err != nil {
			die("%v", err)
		}
		pw = w
		cmd.Stdout = w
		if stdoutPath == "@closed" {
			pr.Close()
			slowDone <- true
		} else {
			go func() {
				time.Sleep(300 * time.Millisecond)
				buf := make([]byte, 2048)
				for {
					n, err := pr.Read(buf)
					so.Write(buf[:n])
					if err != nil {
						break
					}
					time.Sleep(50 * time.Microsecond)
				}
				pr.Close()
				slowDone <- true
			}()
		}
		stdoutPath = ""
	}
	if stdoutPath != "" {
		f, err := os.Create(stdoutPath)
		if err != nil {
			die("%v", err)
		}
		defer f.Close()
		cmd.Stdout = f
	}
	cmd.Stderr = &se
	if err := cmd.Start(); err != nil {
		die("start %s: %v", bin, err)
	}
	if pw != nil {
		pw.Close()
	}
	done := make(chan error, 1)
	go func() { done <- cmd.Wait() }()
	res := binResult{}
	select {
	case err := <-done:
		if err != nil {
			if ee, ok := err.(*exec.ExitError); ok {
				res.Exit = ee.ExitCode()
			} else {
				res.Exit = -1
			}
		}
	case <-time.After(deadline):
		cmd.Process.Kill()
		<-done
		res.Timeout = true
		res.Exit = -9
	}
	if pw != nil {
		select {
		case <-slowDone:
		case <-time.After(deadline):
		}
	}
	res.Stdout = so.String()
	res.Stderr = se.String()
	return res
}

func sortedKeys(m map[string]interface{}) []string {
	ks := make([]string, 0, len(m))
	for k := range m {
		ks = append(ks, k)
	}
	sort.Strings(ks)
	return ks
}

var _ = fmt.Sprintf
