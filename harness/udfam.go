package main

// Family "updown": updown list and updown topranking (C08, C09, C10).
//
// vec: ref [sym], queries [[sym]], targets [[sym]],
//      opts {sizetotal, sizeup, sizedown, sizeside, sizesame, distall, distup, distdown, distside, push, nofill,
//            thrnum, thrden (--threshold-pair = thrnum/thrden), thrtarget, ignore [target numbers], table}
// obs: tlist / qlist {err, header, rows [{i, snps [[r,p,a]], ambs [[a,b]], snpcount, ambcount}]}   (updown list)
//      top {err, header, rows [{qi, same [ti], up, down, side}] | rows [{qi, dir, dist, ti}]}          (fasta/fasta)
//      combos {fc, cf, cc: output identical to fasta/fasta; errs}

import (
	"bytes"
	"strconv"
	"strings"

	"github.com/virus-evolution/gofasta/pkg/updown"
)

func init() {
	families["updown"] = runUpDown
}

func parseListOut(text, prefix string) map[string]interface{} {
	res := map[string]interface{}{"header": "", "rows": []interface{}{}}
	ls := lines(text)
	if len(ls) == 0 {
		return res
	}
	res["header"] = ls[0]
	rows := []interface{}{}
	for _, l := range ls[1:] {
		f := strings.Split(l, ",")
		row := map[string]interface{}{"i": -1, "snps": []interface{}{}, "ambs": []interface{}{}, "snpcount": -1, "ambcount": -1}
		if len(f) == 5 {
			row["i"] = nameIndex(f[0], prefix)
			sn := []interface{}{}
			for _, s := range splitNonEmpty(f[1], "|") {
				sn = append(sn, parseSnp(s))
			}
			row["snps"] = sn
			am := []interface{}{}
			for _, a := range splitNonEmpty(f[2], "|") {
				p := strings.Split(a, "-")
				lo, e1 := strconv.Atoi(p[0])
				hi := lo
				var e2 error
				if len(p) == 2 {
					hi, e2 = strconv.Atoi(p[1])
				}
				if e1 != nil || e2 != nil || len(p) > 2 {
					lo, hi = -1, -1
				}
				am = append(am, []interface{}{lo, hi, len(p)})
			}
			row["ambs"] = am
			row["snpcount"], _ = strconv.Atoi(f[3])
			row["ambcount"], _ = strconv.Atoi(f[4])
		}
		rows = append(rows, row)
	}
	res["rows"] = rows
	return res
}

func idxList(s, prefix string) []interface{} {
	out := []interface{}{}
	for _, x := range splitNonEmpty(s, ";") {
		out = append(out, nameIndex(x, prefix))
	}
	return out
}

func runUpDown(vec map[string]interface{}) map[string]interface{} {
	ref := gSeq(vec, "ref")
	// layout must not matter: lower-case letters, wrapped lines, CRLF
	qs := seqList(gList(vec, "queries"), "q", gBool(vec, "lowq"))
	ts := seqList(gList(vec, "targets"), "t", gBool(vec, "lowt"))
	refFa := chopNl(renderFasta([]rec{{"ref", ref}}, gIntD(vec, "wrapr", 0), false), gBool(vec, "nonlr"))
	qFa := chopNl(renderFasta(qs, gIntD(vec, "wrapq", 0), gBool(vec, "crlfq")), gBool(vec, "nonlq"))
	tFa := chopNl(renderFasta(ts, gIntD(vec, "wrapt", 0), gBool(vec, "crlft")), gBool(vec, "nonlt"))
	obs := map[string]interface{}{}

	list := func(fa []byte, prefix string) (map[string]interface{}, []byte, bool) {
		var out bytes.Buffer
		err, ok := callWithDeadline(callDeadline, func() error {
			return updown.List(bytes.NewReader(refFa), bytes.NewReader(fa), &out)
		})
		if !ok {
			return nil, nil, false
		}
		r := parseListOut(out.String(), prefix)
		r["err"] = errStr(err)
		return r, out.Bytes(), true
	}
	tl, tCsv, ok := list(tFa, "t")
	if !ok {
		obs["timeout"] = true
		return obs
	}
	ql, qCsv, ok := list(qFa, "q")
	if !ok {
		obs["timeout"] = true
		return obs
	}
	obs["tlist"] = tl
	obs["qlist"] = ql
	if gBool(vec, "cli") {
		for k, v := range cliRun(cliCase{files: map[string][]byte{"ref.fa": refFa, "t.fa": tFa}, args: []string{"updown", "list", "-r", "@ref.fa", "-q", "@t.fa"}, inproc: string(tCsv), outflag: "-o"}) {
			obs["list_"+k] = v
		}
	}
	if _, has := vec["opts"]; !has {
		return obs
	}
	o := gMap(vec["opts"])
	var ignore []string
	for _, x := range intList(gList(o, "ignore")) {
		ignore = append(ignore, "t"+itoa(x))
	}
	if ignore == nil {
		ignore = []string{}
	}
	thr := float32(0.1)
	if den := gIntD(o, "thrden", 0); den > 0 {
		s := strconv.FormatFloat(float64(gInt(o, "thrnum"))/float64(den), 'f', -1, 64)
		v, _ := strconv.ParseFloat(s, 32)
		thr = float32(v)
	}
	table := gBool(o, "table")
	top := func(qIn, tIn []byte, qt, tt string) (string, error, bool) {
		var out bytes.Buffer
		err, ok := callWithDeadline(callDeadline, func() error {
			return updown.TopRanking(bytes.NewReader(qIn), bytes.NewReader(tIn), bytes.NewReader(refFa), &out, table, qt, tt, ignore,
				gIntD(o, "sizetotal", 0), gIntD(o, "sizeup", 0), gIntD(o, "sizedown", 0), gIntD(o, "sizeside", 0), gIntD(o, "sizesame", 0),
				gIntD(o, "distall", 0), gIntD(o, "distup", 0), gIntD(o, "distdown", 0), gIntD(o, "distside", 0),
				thr, gIntD(o, "thrtarget", 10000), gBool(o, "nofill"), gIntD(o, "push", 0))
		})
		return out.String(), err, ok
	}
	ff, err, ok := top(qFa, tFa, "fasta", "fasta")
	if !ok {
		obs["timeout"] = true
		return obs
	}
	res := map[string]interface{}{"err": errStr(err), "header": "", "rows": []interface{}{}}
	ls := lines(ff)
	rows := []interface{}{}
	if len(ls) > 0 {
		res["header"] = ls[0]
		for _, l := range ls[1:] {
			f := strings.Split(l, ",")
			row := map[string]interface{}{"qi": nameIndex(f[0], "q")}
			if table && len(f) == 4 {
				row["dir"] = f[1]
				row["dist"], _ = strconv.Atoi(f[2])
				row["ti"] = nameIndex(f[3], "t")
			} else if !table && len(f) == 5 {
				row["same"] = idxList(f[1], "t")
				row["up"] = idxList(f[2], "t")
				row["down"] = idxList(f[3], "t")
				row["side"] = idxList(f[4], "t")
			} else {
				row["bad"] = l
			}
			rows = append(rows, row)
		}
	}
	res["rows"] = rows
	if gBool(vec, "cli") && err == nil {
		args := []string{"updown", "topranking", "-q", "@q.fasta", "-t", "@t.fasta", "-r", "@ref.fa"}
		for _, f := range [][2]string{{"--size-total", "sizetotal"}, {"--size-up", "sizeup"}, {"--size-down", "sizedown"}, {"--size-side", "sizeside"},
			{"--size-same", "sizesame"}, {"--dist-all", "distall"}, {"--dist-up", "distup"}, {"--dist-down", "distdown"}, {"--dist-side", "distside"},
			{"--dist-push", "push"}} {
			args = flagInt(args, f[0], gIntD(o, f[1], 0), 0)
		}
		args = flagBool(flagBool(args, "--no-fill", gBool(o, "nofill")), "--table", table)
		if den := gIntD(o, "thrden", 0); den > 0 {
			args = append(args, "--threshold-pair", strconv.FormatFloat(float64(gInt(o, "thrnum"))/float64(den), 'f', -1, 64))
		}
		args = append(args, "--threshold-target", itoa(gIntD(o, "thrtarget", 10000)))
		files := map[string][]byte{"q.fasta": qFa, "t.fasta": tFa, "ref.fa": refFa}
		if len(ignore) > 0 {
			files["ignore.txt"] = []byte(strings.Join(ignore, "\n") + "\n")
			if (len(qs)+len(ts))%2 == 0 {
				files["ignore.txt"] = []byte(strings.Join(ignore, "\n")) // no final newline
			}
			args = append(args, "--ignore", "@ignore.txt")
		}
		for k, v := range cliRun(cliCase{files: files, args: args, inproc: ff, outflag: "-o"}) {
			res[k] = v
		}
	}
	obs["top"] = res
	if gBool(vec, "combos") {
		c := map[string]interface{}{}
		for _, k := range []struct {
			name   string
			q, t   []byte
			qt, tt string
		}{{"fc", qFa, tCsv, "fasta", "csv"}, {"cf", qCsv, tFa, "csv", "fasta"}, {"cc", qCsv, tCsv, "csv", "csv"}} {
			out, e, ok := top(k.q, k.t, k.qt, k.tt)
			if !ok {
				obs["timeout"] = true
				return obs
			}
			c[k.name] = out == ff && errStr(e) == errStr(err)
			c[k.name+"_err"] = errStr(e)
			c[k.name+"_nrows"] = len(lines(out)) - 1
		}
		obs["combos"] = c
	}
	return obs
}
