module verif/harness

go 1.19

require (
	github.com/biogo/hts v1.2.1
	github.com/virus-evolution/gofasta v0.0.0
)

replace github.com/virus-evolution/gofasta => /repo
