package main

// Family "fasta": the five FASTA readers on one byte stream (C16).
//
// vec: lines [kind] + crlf + finalnl   (line kinds of spec/FastaScan.tla)   or   raw [byte values]
// obs: plain / enc / score / list {err, recs [{id, desc, idx, seq [sym], score, a, c, g, t}]}, variants {err}

import (
	"bytes"
	"strings"
	"time"

	"github.com/virus-evolution/gofasta/pkg/encoding"
	"github.com/virus-evolution/gofasta/pkg/fastaio"
	"github.com/virus-evolution/gofasta/pkg/variants"
)

func init() {
	families["fasta"] = runFastaFam
}

var kindText = map[string]string{"ha": ">s1", "hb": ">s2 some description", "ht": ">s3\ttabbed header", "hl": "> s4 after a blank", "hn": ">", "hs": "> ", "AC": "AC", "ac": "ac",
	"N-": "N-", "GT": "GT", "A": "A", "AZ": "AZ", "bl": "", "sp": "  \t", "Ab": "AC "}

var azTexts = []string{"AZ", "\rC", "A\x1f", "A*", "A\rC", "A1", "\x00A"}

func renderKinds(vec map[string]interface{}) []byte {
	if raw, ok := vec["raw"]; ok {
		l := raw.([]interface{})
		b := make([]byte, len(l))
		for i, x := range l {
			b[i] = byte(int(x.(float64)))
		}
		return b
	}
	nl := "\n"
	if gBool(vec, "crlf") {
		nl = "\r\n"
	}
	var b bytes.Buffer
	ls := gList(vec, "lines")
	for i, k := range ls {
		t, ok := kindText[k.(string)]
		if !ok {
			die("unknown line kind %v", k)
		}
		if k.(string) == "AZ" {
			// "a symbol outside the alphabet": a letter, a stray carriage return (not the one before the line feed), a control
			// byte, punctuation, a digit - by position in the stream
			t = azTexts[(i+len(ls))%len(azTexts)]
		}
		b.WriteString(t)
		if i < len(ls)-1 || gBool(vec, "finalnl") {
			b.WriteString(nl)
		}
	}
	return b.Bytes()
}

// s1Length is the number of sequence bytes that follow the first header whose ID is s1.
func s1Length(data []byte) int {
	n, in := 0, false
	for _, l := range strings.Split(strings.ReplaceAll(string(data), "\r", ""), "\n") {
		if strings.HasPrefix(l, ">") {
			if in {
				break
			}
			f := strings.Fields(l[1:])
			in = len(f) > 0 && f[0] == "s1"
			continue
		}
		if in {
			n += len(l) - strings.Count(l, "-") // the annotation describes the degapped reference
		}
	}
	return n
}

func efrRec(r fastaio.EncodedFastaRecord) map[string]interface{} {
	return map[string]interface{}{"id": r.ID, "desc": r.Description, "idx": r.Idx, "seq": symList(encoding.DecodeToString(r.Seq)),
		"score": int(r.Score), "a": r.Count_A, "c": r.Count_C, "g": r.Count_G, "t": r.Count_T}
}

func runFastaFam(vec map[string]interface{}) map[string]interface{} {
	data := renderKinds(vec)
	obs := map[string]interface{}{}
	timeout := false

	// channel readers
	drive := func(start func(chE chan fastaio.EncodedFastaRecord, chP chan fastaio.FastaRecord, cErr chan error, cDone chan bool)) map[string]interface{} {
		chE := make(chan fastaio.EncodedFastaRecord)
		chP := make(chan fastaio.FastaRecord)
		cErr := make(chan error)
		cDone := make(chan bool)
		go start(chE, chP, cErr, cDone)
		recs := []interface{}{}
		res := map[string]interface{}{"err": ""}
		deadline := time.After(callDeadline)
	loop:
		for {
			select {
			case r := <-chE:
				recs = append(recs, efrRec(r))
			case r := <-chP:
				recs = append(recs, map[string]interface{}{"id": r.ID, "desc": r.Description, "idx": r.Idx, "seq": symList(r.Seq),
					"score": 0, "a": 0, "c": 0, "g": 0, "t": 0})
			case e := <-cErr:
				res["err"] = e.Error()
				break loop
			case <-cDone:
				break loop
			case <-deadline:
				timeout = true
				break loop
			}
		}
		res["recs"] = recs
		return res
	}
	obs["plain"] = drive(func(chE chan fastaio.EncodedFastaRecord, chP chan fastaio.FastaRecord, cErr chan error, cDone chan bool) {
		fastaio.ReadAlignment(bytes.NewReader(data), chP, cErr, cDone)
	})
	obs["enc"] = drive(func(chE chan fastaio.EncodedFastaRecord, chP chan fastaio.FastaRecord, cErr chan error, cDone chan bool) {
		fastaio.ReadEncodeAlignment(bytes.NewReader(data), false, chE, cErr, cDone)
	})
	obs["score"] = drive(func(chE chan fastaio.EncodedFastaRecord, chP chan fastaio.FastaRecord, cErr chan error, cDone chan bool) {
		fastaio.ReadEncodeScoreAlignment(bytes.NewReader(data), false, chE, cErr, cDone)
	})
	lst := map[string]interface{}{"err": ""}
	var lrecs []fastaio.EncodedFastaRecord
	err, ok := callWithDeadline(callDeadline, func() error {
		var e error
		lrecs, e = fastaio.ReadEncodeAlignmentToList(bytes.NewReader(data), false)
		return e
	})
	if !ok {
		timeout = true
	}
	lst["err"] = errStr(err)
	lr := []interface{}{}
	for _, r := range lrecs {
		lr = append(lr, efrRec(r))
	}
	lst["recs"] = lr
	obs["list"] = lst
	// variants.findReference is the fifth scanner; it is reached through variants.Variants with an annotation that
	// has no CDS and is as long as the record "s1" of this stream (so that nothing but the FASTA reading can object)
	var out bytes.Buffer
	anno := renderGenbank(strings.Repeat("A", s1Length(data)), nil)
	err, ok = callWithDeadline(callDeadline, func() error {
		return variants.Variants(bytes.NewReader(data), false, "s1", bytes.NewReader(anno), "gb", &out, -1, -1, false, 0.0, false, 2)
	})
	if !ok {
		timeout = true
	}
	vres := map[string]interface{}{"err": errStr(err)}
	if _, isValid := vec["valid"]; isValid && err == nil && len(lrecs) > 0 {
		// streams built as gap-free A/C/G/T alignments: the rows must be exactly the differences from s1 that the list
		// reader's records show (a reference mangled by the scan shows here)
		var ref string
		for _, r := range lrecs {
			if r.ID == "s1" {
				ref = encoding.DecodeToString(r.Seq)
			}
		}
		want := []string{"query,mutations"}
		for _, r := range lrecs {
			if r.ID == "s1" {
				continue
			}
			q := encoding.DecodeToString(r.Seq)
			var ms []string
			for i := 0; i < len(q) && i < len(ref); i++ {
				if q[i] != ref[i] {
					ms = append(ms, "nuc:"+string(ref[i])+itoa(i+1)+string(q[i]))
				}
			}
			want = append(want, r.ID+","+strings.Join(ms, "|"))
		}
		vres["ok"] = strings.Join(want, "\n")+"\n" == out.String()
	}
	obs["variants"] = vres
	if timeout {
		obs["timeout"] = true
	}
	return obs
}
