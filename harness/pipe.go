package main

// Family "pipe": the concurrent pipelines (C12, C18 in-process part, C19).
//
// vec: cmd, N (records), T (threads), mode ("plain" | "gate" | "jitter" | "wfail" | "badrec"),
//      order [idx...] (gate), jseed (jitter), failk (wfail: the k-th Write call fails), badat (badrec)
//
// Each vector is run twice: a reference run (T=1, hooks off) and the run under test.  The
// observation carries what the trace specification needs: the hook events in ticket order,
// whether a write failed, what the entry point returned, and the order / fidelity of the
// records that reached the destination (compared with the reference run record by record).

import (
	"bytes"
	"errors"
	"fmt"
	"strings"
	"time"

	"github.com/virus-evolution/gofasta/pkg/closest"
	"github.com/virus-evolution/gofasta/pkg/sam"
	"github.com/virus-evolution/gofasta/pkg/snps"
	"github.com/virus-evolution/gofasta/pkg/updown"
	"github.com/virus-evolution/gofasta/pkg/variants"
	"github.com/virus-evolution/gofasta/pkg/vhook"
)

const pipeRef = "GGC" + "ATGGCTAAAGGTCCCTGTACTGAATAA" + "TTG" // CDS 4..30 : M A K G P C T E *

type failWriter struct {
	buf    bytes.Buffer
	n      int
	failAt int
	failed int
}

var errInjected = errors.New("injected write failure (no space left on device)")

func (w *failWriter) Write(p []byte) (int, error) {
	w.n++
	if w.failAt > 0 && w.n == w.failAt {
		w.failed = w.n
		return 0, errInjected
	}
	return w.buf.Write(p)
}

func pipeQueries(n int) []rec {
	out := make([]rec, n)
	next := map[byte]byte{'A': 'C', 'C': 'G', 'G': 'T', 'T': 'A'}
	for i := 0; i < n; i++ {
		b := []byte(pipeRef)
		p := 3 + (i*5)%27
		b[p] = next[b[p]]
		if i%3 == 1 {
			q := 3 + (i*7+11)%27
			b[q] = next[b[q]]
		}
		if i%4 == 2 {
			b[1] = 'N'
		}
		out[i] = rec{name: "q" + itoa(i), seq: string(b)}
	}
	return out
}

func renderSam(refName string, refLen int, recs []samRec) []byte {
	var b bytes.Buffer
	fmt.Fprintf(&b, "@SQ\tSN:%s\tLN:%d\n", refName, refLen)
	b.WriteString("@PG\tID:vharness\tPN:vharness\n")
	for _, r := range recs {
		seq := r.seq
		if seq == "" {
			seq = "*"
		}
		fmt.Fprintf(&b, "%s\t%d\t%s\t%d\t60\t%s\t*\t0\t0\t%s\t*\n", r.name, r.flag, refName, r.pos+1, r.cigar, seq)
	}
	return b.Bytes()
}

type samRec struct {
	name  string
	flag  int
	pos   int // 0-based
	cigar string
	seq   string
}

type gbFeat struct {
	loc   string
	gene  string
	start int // codon_start
	trans string
}

func renderGenbank(origin string, feats []gbFeat) []byte {
	var b bytes.Buffer
	fmt.Fprintf(&b, "LOCUS       TEST %d bp\n", len(origin))
	b.WriteString("DEFINITION  synthetic genome.\n")
	b.WriteString("FEATURES             Location/Qualifiers\n")
	fmt.Fprintf(&b, "     source          1..%d\n", len(origin))
	b.WriteString("                     /organism=\"test\"\n")
	b.WriteString("                     /mol_type=\"genomic RNA\"\n")
	for i, f := range feats {
		// as in real flat files: a gene feature next to the CDS, qualifiers before and after the ones that are used,
		// and a /translation wrapped over several lines (the closing quote on the last one)
		fmt.Fprintf(&b, "     gene            %s\n", f.loc)
		fmt.Fprintf(&b, "                     /gene=\"%s\"\n", f.gene)
		fmt.Fprintf(&b, "     CDS             %s\n", f.loc)
		fmt.Fprintf(&b, "                     /gene=\"%s\"\n", f.gene)
		if i%2 == 0 {
			fmt.Fprintf(&b, "                     /note=\"synthetic feature %d; spans\n", i)
			b.WriteString("                     two lines\"\n")
		}
		fmt.Fprintf(&b, "                     /codon_start=%d\n", f.start)
		fmt.Fprintf(&b, "                     /product=\"test protein %d\"\n", i)
		w := []int{0, 3, 5, 58}[(i+len(f.trans))%4]
		lone := false
		if i%2 == 0 && len(f.trans) > 0 && len(f.trans)%3 == 0 {
			// a value that fills its last line exactly: the closing quote stands alone on the next line
			w, lone = 3, true
		}
		if lone {
			for k := 0; k < len(f.trans); k += w {
				pre := ""
				if k == 0 {
					pre = "/translation=\""
				}
				fmt.Fprintf(&b, "                     %s%s\n", pre, f.trans[k:k+w])
			}
			b.WriteString("                     \"\n")
		} else if w == 0 || len(f.trans) <= w {
			fmt.Fprintf(&b, "                     /translation=\"%s\"\n", f.trans)
		} else {
			for k := 0; k < len(f.trans); k += w {
				j := k + w
				if j > len(f.trans) {
					j = len(f.trans)
				}
				pre, post := "", ""
				if k == 0 {
					pre = "/translation=\""
				}
				if j == len(f.trans) {
					post = "\""
				}
				fmt.Fprintf(&b, "                     %s%s%s\n", pre, f.trans[k:j], post)
			}
		}
		if i%3 == 1 {
			b.WriteString("                     /db_xref=\"GI:12345\"\n")
		}
	}
	b.WriteString("ORIGIN\n")
	low := strings.ToLower(origin)
	for i := 0; i < len(low); i += 60 {
		j := i + 60
		if j > len(low) {
			j = len(low)
		}
		// groups of ten bases separated by blanks, as in real files
		var groups []string
		for k := i; k < j; k += 10 {
			e := k + 10
			if e > j {
				e = j
			}
			groups = append(groups, low[k:e])
		}
		fmt.Fprintf(&b, "%9d %s\n", i+1, strings.Join(groups, " "))
	}
	b.WriteString("//\n")
	return b.Bytes()
}

var qcsvCache = map[int][]byte{}

var pipeGb = renderGenbank(pipeRef, []gbFeat{{loc: "4..30", gene: "g1", start: 1, trans: "MAKGPCTE"}})

type pipeSpec struct {
	readySite string
	recvSite  string
	hdrLines  int // CSV header lines preceding the records
}

var pipeSpecs = map[string]pipeSpec{
	"toma":        {"sam.blockToFastaRecord", "fastaio.WriteAlignment", 0},
	"tomawrap":    {"sam.blockToFastaRecord", "fastaio.WriteAlignment", 0},
	"tomapad":     {"sam.blockToFastaRecord", "fastaio.WriteAlignment", 0},
	"samvar":      {"sam.getVariantsSam", "variants.WriteVariants", 1},
	"variants":    {"variants.getVariants", "variants.WriteVariants", 1},
	"variantsref": {"variants.getVariants", "variants.WriteVariants", 1},
	"toprankgate": {"updown.getLines", "updown.reorderRecords", 1},
	"snps":        {"snps.getSNPs", "snps.writeOutput", 1},
	// fan-out commands: the per-query goroutines report to Main, which collects by query index and then writes
	"closest":       {"closest.findClosest", "closest.Closest", 1},
	"closestn":      {"closest.findClosestN", "closest.ClosestN", 1},
	"closestntable": {"closest.findClosestN", "closest.ClosestN", 1},
	"closestd":      {"closest.findClosestN", "closest.ClosestN", 1},
	"toprank":       {"updown.findUpDownCatchment", "updown.TopRanking", 1},
	"topranktable":  {"updown.findUpDownCatchment", "updown.TopRanking", 1},
	"udlist":        {"updown.getLines", "updown.writeOutput", 1},
}

// pipeCall runs one command in-process on n records, writing to w.
func pipeCall(cmd string, n, threads, badAt int, w *failWriter) (error, bool) {
	qs := pipeQueries(n)
	if badAt >= 0 && badAt < n {
		// an invalid nucleotide in record badAt (FASTA commands) / an unparsable CIGAR (SAM commands)
		b := []byte(qs[badAt].seq)
		b[5] = 'Z'
		qs[badAt].seq = string(b)
	}
	refFa := renderFasta([]rec{{"ref", pipeRef}}, 0, false)
	msa := renderFasta(qs, 0, false)
	var srecs []samRec
	for i, q := range qs {
		cig := itoa(len(pipeRef)) + "M"
		seq := q.seq
		if badAt == i {
			cig = "5M" // CIGAR/sequence length mismatch: the SAM reader rejects the record
			seq = strings.Replace(seq, "Z", "A", 1)
		}
		srecs = append(srecs, samRec{name: q.name, pos: 0, cigar: cig, seq: seq})
	}
	samData := renderSam("ref", len(pipeRef), srecs)
	return callWithDeadline(callDeadline, func() error {
		switch cmd {
		case "toma":
			return sam.ToMultiAlign(bytes.NewReader(samData), w, -1, -1, -1, false, threads)
		case "tomawrap":
			return sam.ToMultiAlign(bytes.NewReader(samData), w, 10, -1, -1, false, threads)
		case "tomapad":
			// --pad with a window: the flanks are filled per record
			return sam.ToMultiAlign(bytes.NewReader(samData), w, -1, 5, len(pipeRef)-4, true, threads)
		case "samvar":
			return sam.Variants(bytes.NewReader(samData), bytes.NewReader(refFa), true, bytes.NewReader(pipeGb), "gb", w, -1, -1, false, 0.0, false, threads)
		case "variants":
			return variants.Variants(bytes.NewReader(msa), false, "", bytes.NewReader(pipeGb), "gb", w, -1, -1, false, 0.0, false, threads)
		case "variantsref":
			// the reference is record 1 of the alignment (not the first, not the last): the writer passes over it
			withRef := append([]rec{}, qs...)
			if len(withRef) > 1 {
				withRef = append(withRef[:1], append([]rec{{"ref", pipeRef}}, withRef[1:]...)...)
			} else {
				withRef = append([]rec{{"ref", pipeRef}}, withRef...)
			}
			return variants.Variants(bytes.NewReader(renderFasta(withRef, 0, false)), false, "ref", bytes.NewReader(pipeGb), "gb", w, -1, -1, false, 0.0, false, threads)
		case "toprankgate":
			// csv queries (no hooks on that path), fasta targets through getLines -> reorderRecords; many ties among the targets
			// (the csv is made once, during the reference run, when the hooks are inert)
			qcsv, ok := qcsvCache[n]
			if !ok {
				var b bytes.Buffer
				if err := updown.List(bytes.NewReader(refFa), bytes.NewReader(msa), &b); err != nil {
					return err
				}
				qcsv = b.Bytes()
				qcsvCache[n] = qcsv
			}
			return updown.TopRanking(bytes.NewReader(qcsv), bytes.NewReader(msa), bytes.NewReader(refFa), w, false,
				"csv", "fasta", []string{}, 0, 3, 3, 3, 3, 0, 0, 0, 0, 0.5, 10000, false, 0)
		case "snps":
			return snps.SNPs(bytes.NewReader(refFa), bytes.NewReader(msa), false, false, 0.0, w)
		case "udlist":
			return updown.List(bytes.NewReader(refFa), bytes.NewReader(msa), w)
		case "closest":
			return closest.Closest(bytes.NewReader(msa), bytes.NewReader(msa), "raw", w, threads)
		case "closestn":
			return closest.ClosestN(3, -1.0, bytes.NewReader(msa), bytes.NewReader(msa), "snp", w, false, threads)
		case "closestd":
			// -d 0 against a single target: every query but the first has nothing within the distance (a row "name,")
			return closest.ClosestN(0, 0.0, bytes.NewReader(msa), bytes.NewReader(renderFasta(qs[:1], 0, false)), "snp", w, false, threads)
		case "closestntable":
			return closest.ClosestN(3, -1.0, bytes.NewReader(msa), bytes.NewReader(msa), "snp", w, true, threads)
		case "toprank":
			return updown.TopRanking(bytes.NewReader(msa), bytes.NewReader(msa), bytes.NewReader(refFa), w, false,
				"fasta", "fasta", []string{}, 4, 0, 0, 0, 0, 0, 0, 0, 0, 0.5, 10000, false, 0)
		case "topranktable":
			return updown.TopRanking(bytes.NewReader(msa), bytes.NewReader(msa), bytes.NewReader(refFa), w, true,
				"fasta", "fasta", []string{}, 4, 0, 0, 0, 0, 0, 0, 0, 0, 0.5, 10000, false, 0)
		}
		return errors.New("unknown pipe command " + cmd)
	})
}

// splitRecords cuts a command's output into (header, records keyed by query index, order of indices).
func splitRecords(cmd, out string, hdrLines int) (string, map[int]string, []int) {
	ls := strings.SplitAfter(out, "\n")
	if len(ls) > 0 && ls[len(ls)-1] == "" {
		ls = ls[:len(ls)-1]
	}
	hdr := ""
	for i := 0; i < hdrLines && len(ls) > 0; i++ {
		hdr += ls[0]
		ls = ls[1:]
	}
	recs := map[int]string{}
	order := []int{}
	cur := -1
	fasta := cmd == "toma" || cmd == "tomawrap" || cmd == "tomapad" || cmd == "topa"
	for _, l := range ls {
		if fasta {
			if strings.HasPrefix(l, ">") {
				cur = nameIndex(strings.TrimSpace(l[1:]), "q")
				if cur >= 0 || cmd != "topa" { // toPairAlign: the reference record precedes every query
					order = append(order, cur)
				}
			}
		} else {
			cur = nameIndex(strings.SplitN(strings.TrimSpace(l), ",", 2)[0], "q")
			order = append(order, cur)
		}
		recs[cur] += l
	}
	return hdr, recs, order
}

func init() {
	families["pipe"] = runPipe
}

func runPipe(vec map[string]interface{}) map[string]interface{} {
	cmd := gStr(vec, "cmd")
	n := gInt(vec, "N")
	t := gIntD(vec, "T", 1)
	mode := gStr(vec, "mode")
	badAt := gIntD(vec, "badat", -1)
	spec := pipeSpecs[cmd]
	obs := map[string]interface{}{}

	// reference run: one thread, hooks inert
	vhook.Configure(vhook.Config{})
	ref := &failWriter{}
	rerr, ok := pipeCall(cmd, n, 1, -1, ref)
	if !ok || rerr != nil {
		obs["refrun_failed"] = true
		obs["err"] = errStr(rerr)
		obs["timeout"] = !ok
		return obs
	}
	obs["refrun_failed"] = false
	obs["nwrites_ref"] = ref.n

	hc := vhook.Config{Trace: true}
	switch mode {
	case "gate":
		hc.GateSite = spec.readySite
		hc.GateRecv = spec.recvSite
		hc.GateOrder = intList(gList(vec, "order"))
		hc.GateWait = 1500 * time.Millisecond
		if o1 := gList(vec, "order1"); len(o1) > 0 && cmd == "samvar" {
			// two worker stages: impose the stage-1 hand-off order as well
			hc.Gates = []vhook.Gate{{Site: "sam.blockToPairwiseAlignment", Order: intList(o1), Release: spec.readySite}}
		}
	case "jitter":
		hc.Jitter = int64(gIntD(vec, "jseed", 1))
	}
	vhook.Configure(hc)
	w := &failWriter{failAt: gIntD(vec, "failk", 0)}
	err, ok := pipeCall(cmd, n, t, badAt, w)
	evs := vhook.Events()
	reordered, unrealised := vhook.Stats()
	vhook.Configure(vhook.Config{})
	if !ok {
		obs["timeout"] = true
		return obs
	}
	obs["err"] = errStr(err)
	obs["iserr"] = err != nil
	obs["nwrites"] = w.n
	obs["wfailed"] = w.failed
	obs["reordered"] = reordered
	obs["unrealised"] = unrealised
	el := make([]interface{}, 0, len(evs))
	for _, e := range evs {
		stage := 0
		switch e.Site {
		case "sam.blockToPairwiseAlignment":
			stage = 1
		case spec.readySite:
			stage = 1
			if cmd == "samvar" {
				stage = 2
			}
		}
		if e.Ev != "ready" && e.Ev != "recv" { // begin / end of the entry point: the trace builder adds its own markers
			continue
		}
		if e.Ev == "recv" && e.Site != spec.recvSite {
			continue
		}
		if e.Ev == "ready" && stage == 0 {
			continue
		}
		el = append(el, map[string]interface{}{"ev": e.Ev, "stage": stage, "idx": e.Idx})
	}
	obs["events"] = el
	// what reached the destination, record by record, against the reference run
	rh, rrecs, _ := splitRecords(cmd, ref.buf.String(), spec.hdrLines)
	h, recs, order := splitRecords(cmd, w.buf.String(), spec.hdrLines)
	if cmd == "variantsref" && n > 1 {
		for k, x := range order {
			if x >= 1 {
				order[k] = x + 1
			}
		}
	}
	if cmd == "closestntable" || cmd == "topranktable" {
		// long-form tables: several rows per query; the order of the queries is the order of first appearance
		o2 := []int{}
		for _, x := range order {
			if len(o2) == 0 || o2[len(o2)-1] != x {
				o2 = append(o2, x)
			}
		}
		order = o2
	}
	obs["order"] = order
	obs["header_ok"] = h == rh || (w.failed > 0 && strings.HasPrefix(rh, h))
	same := true
	for idx, txt := range recs {
		want := rrecs[idx]
		if txt != want && !(w.failed > 0 && strings.HasPrefix(want, txt)) {
			same = false
		}
	}
	obs["records_same"] = same
	obs["bytes_equal"] = w.buf.String() == ref.buf.String()
	return obs
}
