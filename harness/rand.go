package main

// gen-rand <family> <n> <out>: seeded random vectors far outside TLC's enumeration bounds,
// restricted to each property's stated domain.

import (
	"math/rand"
	"strconv"
	"strings"
)

type randGen func(rng *rand.Rand, i int) map[string]interface{}

var randGens = map[string]randGen{}

const syms17 = "ACGTRYSWKMBDHVN-?"

func cmdGenRand(args []string) {
	if len(args) < 3 {
		die("usage: gen-rand <family> <n> <out>")
	}
	g, ok := randGens[args[0]]
	if !ok {
		die("no random generator for %q", args[0])
	}
	n, _ := strconv.Atoi(args[1])
	f := mustCreate(args[2])
	w := newObsWriter(f)
	rng := rand.New(rand.NewSource(seedFromEnv()*7919 + int64(len(args[0]))))
	for i := 0; i < n; i++ {
		w.write(g(rng, i))
	}
	w.flush()
	f.Close()
}

func symList(s string) []interface{} {
	out := make([]interface{}, len(s))
	for i := 0; i < len(s); i++ {
		out[i] = string(s[i])
	}
	return out
}

// randSeq draws a sequence; pAmb = probability of a non-ACGT symbol per site.
func randSeq(rng *rand.Rand, n int, pAmb float64) string {
	b := make([]byte, n)
	for i := range b {
		if rng.Float64() < pAmb {
			b[i] = syms17[4+rng.Intn(13)]
		} else {
			b[i] = "ACGT"[rng.Intn(4)]
		}
	}
	return string(b)
}

// mutate copies s, changing each site with probability p to a random symbol (ambiguity with pAmb).
func mutate(rng *rand.Rand, s string, p, pAmb float64) string {
	b := []byte(s)
	for i := range b {
		if rng.Float64() < p {
			if rng.Float64() < pAmb {
				b[i] = syms17[4+rng.Intn(13)]
			} else {
				b[i] = "ACGT"[rng.Intn(4)]
			}
		}
	}
	return string(b)
}

func init() {
	randGens["snps"] = func(rng *rand.Rand, i int) map[string]interface{} {
		w := 5 + rng.Intn(120)
		long := i%25 == 7 // rows of several kilobytes among short ones: a writer that buffers must keep them in place
		if long {
			w = 1200 + rng.Intn(300)
		}
		ref := randSeq(rng, w, 0.1)
		nq := 1 + rng.Intn(30)
		padded := i%50 == 21
		if padded {
			w = 12 + rng.Intn(60)
			ref = randSeq(rng, w, 0.1)
			nq = 3 + rng.Intn(4)
		}
		if long {
			ref = randSeq(rng, w, 0.0)
			nq = 3 + rng.Intn(3)
		}
		qs := make([]interface{}, nq)
		// a few shared mutations so that aggregate frequencies are interesting
		base := mutate(rng, ref, 0.05, 0.2)
		for k := range qs {
			src := ref
			if rng.Intn(2) == 0 {
				src = base
			}
			qs[k] = symList(mutate(rng, src, 0.08, 0.4))
			if long && k == 1 {
				b := []byte(ref)
				for j := range b {
					b[j] = "ACGT"[(strings.IndexByte("ACGT", b[j])+1)%4]
				}
				qs[k] = symList(string(b))
			}
		}
		thr := -1
		if rng.Intn(2) == 0 {
			// either an occurring frequency k/n with a finite 3-decimal expansion or an arbitrary thousandth
			thr = rng.Intn(1001)
			if rng.Intn(2) == 0 {
				k := rng.Intn(nq + 1)
				if (k*1000)%nq == 0 {
					thr = k * 1000 / nq
				}
			}
		}
		v := map[string]interface{}{"id": "rand-" + itoa(i), "ref": symList(ref), "qs": qs,
			"hard": rng.Intn(2) == 0, "lowr": rng.Intn(4) == 0, "lowq": rng.Intn(4) == 0,
			"wrap": []int{0, 0, 1, 7, 60}[rng.Intn(5)], "crlf": rng.Intn(4) == 0, "thr": thr,
			"nonlr": rng.Intn(5) == 0, "nonlq": rng.Intn(3) == 0} // files whose last line is not terminated
		if padded {
			// a genome of more than 100,000 columns: positions of 1 to 6 digits in one output
			v["pads"] = []interface{}{[]int{w / 4, 20000 + rng.Intn(9000)}, []int{w / 2, 60000 + rng.Intn(9000)}, []int{3 * w / 4, 10000 + rng.Intn(20000)}}
			v["wrap"] = []int{0, 60}[rng.Intn(2)]
			if thr < 0 || thr > 500 {
				v["thr"] = rng.Intn(400)
			}
		}
		return v
	}
}

func init() {
	// C07: pairs and small target sets, any measure; plain or table
	randGens["closest7"] = func(rng *rand.Rand, i int) map[string]interface{} {
		w := 10 + rng.Intn(290)
		q := randSeq(rng, w, 0.05)
		nt := 1 + rng.Intn(4)
		ts := make([]interface{}, nt)
		for k := range ts {
			ts[k] = symList(mutate(rng, q, 0.02+0.2*rng.Float64(), 0.2))
		}
		measure := []string{"raw", "snp", "tn93"}[rng.Intn(3)]
		plain := nt == 1 && rng.Intn(2) == 0
		n := nt
		if plain {
			n = 0
		}
		v := map[string]interface{}{"id": "rand7-" + itoa(i), "queries": []interface{}{symList(q)}, "targets": ts,
			"measure": measure, "n": n, "d": -1, "table": !plain, "threads": 1}
		if i%150 == 77 {
			// a long alignment (about 70,000 to 140,000 columns), one base dominating: a unit of 12-20 columns repeated
			u := 12 + rng.Intn(9)
			b := []byte(strings.Repeat(string("ACGT"[rng.Intn(4)]), u))
			for k, p := range rng.Perm(u)[:6] {
				b[p] = "ACGTAC"[k] // every base present (tn93 is defined), one of them more than 65,536 times once repeated
			}
			uq := string(b)
			measure = []string{"tn93", "tn93", "raw", "snp"}[(i/150)%4]
			uts := make([]interface{}, 2)
			for k := range uts {
				uts[k] = symList(mutate(rng, uq, 0.1, 0.0))
			}
			return map[string]interface{}{"id": "rand7-long-" + itoa(i), "queries": []interface{}{symList(uq)}, "targets": uts,
				"measure": measure, "n": 2, "d": -1, "table": true, "threads": 1, "rep": 70000/u + rng.Intn(70000/u),
				"wrapt": []int{0, 60}[rng.Intn(2)], "wrapq": 0}
		}
		// letter case must not matter: lower-case queries, lower-case targets, soft-masked targets
		v["wrapt"] = []int{0, 0, 7, 16, 60}[rng.Intn(5)]
		v["wrapq"] = []int{0, 0, 10}[rng.Intn(3)]
		v["nonlq"], v["nonlt"] = rng.Intn(3) == 0, rng.Intn(3) == 0
		switch rng.Intn(6) {
		case 0:
			v["lowq"] = true
		case 1:
			v["lowt"] = true
		case 2:
			a := rng.Intn(w)
			v["maskt"] = []int{a, a + 1 + rng.Intn(w-a)}
		}
		return v
	}
	// C06: many near-identical targets (ties, duplicates, ambiguous and all-N targets), raw / snp
	randGens["closest6"] = func(rng *rand.Rand, i int) map[string]interface{} {
		w := 12 + rng.Intn(60)
		anc := randSeq(rng, w, 0.0)
		nq := 1 + rng.Intn(3)
		qs := make([]interface{}, nq)
		for k := range qs {
			qs[k] = symList(mutate(rng, anc, 0.05, 0.3))
		}
		if i%9 == 1 {
			qs[0] = symList(strings.Repeat("N", w)) // every distance from this query is undefined
		}
		nt := 2 + rng.Intn(25)
		ts := make([]interface{}, nt)
		pool := []string{}
		for k := range ts {
			var s string
			switch r := rng.Intn(10); {
			case r == 0:
				s = strings.Repeat("N", w)
			case r <= 3 && len(pool) > 0:
				s = pool[rng.Intn(len(pool))] // duplicate
			case r <= 5 && len(pool) > 0:
				// same distance, different completeness: change a site to a compatible ambiguity code
				b := []byte(pool[rng.Intn(len(pool))])
				b[rng.Intn(w)] = 'N'
				s = string(b)
			default:
				s = mutate(rng, anc, 0.08, 0.15)
			}
			pool = append(pool, s)
			ts[k] = symList(s)
		}
		if i%5 == 2 {
			// ties on distance between targets that differ from the query at DIFFERENT sites, the later ones more complete:
			// query = ancestor; target k = ancestor with one substitution at site k and (nt-k) sites set to N elsewhere
			nq = 1
			qs = []interface{}{symList(anc)}
			if nt > w/2 {
				nt = w / 2
			}
			ts = make([]interface{}, nt)
			for k := range ts {
				b := []byte(anc)
				b[k] = "ACGT"[(strings.IndexByte("ACGT", b[k])+1+rng.Intn(3))%4]
				for j := 0; j < nt-k-1; j++ {
					b[w-1-j] = 'N'
				}
				ts[k] = symList(string(b))
			}
		}
		measure := []string{"raw", "snp"}[rng.Intn(2)]
		n := []int{0, 1, 2, 3, 5, 8, 40}[rng.Intn(7)]
		exactd := -1
		if i%5 == 4 {
			// raw distances j/10 (or j/20) for every j, threshold -d exactly on one of them
			wd := 10 * (1 + rng.Intn(2))
			a := randSeq(rng, wd, 0.0)
			nq = 1
			qs = []interface{}{symList(a)}
			ts = make([]interface{}, 0, wd+1)
			for j := 0; j <= wd; j += 1 + rng.Intn(2) {
				b := []byte(a)
				for x := 0; x < j; x++ {
					b[x] = "ACGT"[(strings.IndexByte("ACGT", b[x])+1)%4]
				}
				ts = append(ts, symList(string(b)))
			}
			measure = "raw"
			exactd = 100 * (1 + rng.Intn(9))
			n = []int{0, 0, 2, 40}[rng.Intn(4)]
		}
		if i%5 == 2 {
			measure = "snp"
			n = []int{0, 0, 1, 2}[rng.Intn(4)]
		}
		d := -1
		if rng.Intn(3) == 0 {
			if measure == "snp" {
				d = rng.Intn(6)
			} else {
				d = []int{0, 50, 100, 125, 200, 250, 500}[rng.Intn(7)]
			}
		}
		// layout must not matter: targets (and queries) wrapped over several lines, CRLF
		if exactd >= 0 {
			d = exactd
		}
		v := map[string]interface{}{"id": "rand6-" + itoa(i), "queries": qs, "targets": ts,
			"measure": measure, "n": n, "d": d, "table": rng.Intn(2) == 0, "threads": []int{1, 2, 4, 0}[rng.Intn(4)], "mono": false,
			"wrapt": []int{0, 0, 3, 5, 8, 60}[rng.Intn(6)], "wrapq": []int{0, 0, 4}[rng.Intn(3)], "crlft": rng.Intn(5) == 0}
		if len(qs) >= 2 && i%7 == 3 {
			v["dupq"], v["table"] = true, false // two queries under one name: each still gets its own row, in file order
		}
		return v
	}
}

// ---- SAM blocks (C01, C02, C15) -------------------------------------------------------------

type cigOp struct {
	op string
	n  int
}

// genCigar builds a CIGAR consuming exactly span reference bases, with clips, and the SEQ for it.
func genCigar(rng *rand.Rand, ref string, pos, span int) ([]interface{}, string) {
	var ops []cigOp
	var seq []byte
	randBases := func(n int) {
		for i := 0; i < n; i++ {
			if rng.Intn(12) == 0 {
				seq = append(seq, "RYKMSWN"[rng.Intn(7)])
			} else {
				seq = append(seq, "ACGT"[rng.Intn(4)])
			}
		}
	}
	hard := rng.Intn(5) == 0
	if hard {
		ops = append(ops, cigOp{"H", 1 + rng.Intn(3)})
	}
	if rng.Intn(3) == 0 {
		n := 1 + rng.Intn(4)
		ops = append(ops, cigOp{"S", n})
		randBases(n)
	}
	rem := span
	p := pos
	aligned := false
	for rem > 0 {
		r := rng.Intn(20)
		switch {
		case r < 11 || !aligned:
			n := 1 + rng.Intn(minInt(10, rem))
			op := []string{"M", "M", "M", "=", "X"}[rng.Intn(5)]
			ops = append(ops, cigOp{op, n})
			for i := 0; i < n; i++ {
				if rng.Intn(8) == 0 {
					randBases(1)
				} else {
					seq = append(seq, ref[p+i])
				}
			}
			p += n
			rem -= n
			aligned = true
		case r < 14:
			n := 1 + rng.Intn(minInt(3, rem))
			ops = append(ops, cigOp{"D", n})
			p += n
			rem -= n
		case r < 15:
			n := 1 + rng.Intn(minInt(3, rem))
			ops = append(ops, cigOp{"N", n})
			p += n
			rem -= n
		case r < 19:
			n := 1 + rng.Intn(3)
			ops = append(ops, cigOp{"I", n})
			randBases(n)
		default:
			ops = append(ops, cigOp{"P", 1 + rng.Intn(2)})
		}
	}
	if rng.Intn(4) == 0 {
		n := 1 + rng.Intn(3)
		ops = append(ops, cigOp{"I", n})
		randBases(n)
	}
	if rng.Intn(3) == 0 {
		n := 1 + rng.Intn(4)
		ops = append(ops, cigOp{"S", n})
		randBases(n)
	}
	if hard || rng.Intn(6) == 0 {
		ops = append(ops, cigOp{"H", 1 + rng.Intn(3)})
	}
	out := make([]interface{}, len(ops))
	for i, o := range ops {
		out[i] = []interface{}{o.op, o.n}
	}
	return out, string(seq)
}

func minInt(a, b int) int {
	if a < b {
		return a
	}
	return b
}

func init() {
	randGens["sam"] = func(rng *rand.Rand, i int) map[string]interface{} {
		L := 30 + rng.Intn(60)
		ref := randSeq(rng, L, 0.0)
		nq := 1 + rng.Intn(6)
		var recs []interface{}
		for q := 0; q < nq; q++ {
			nr := 1 + rng.Intn(4)
			if rng.Intn(3) == 0 {
				nr = 1
			}
			// cut points for nr disjoint segments; sometimes let two segments overlap (C01 conflicts; outside C02's domain)
			cuts := []int{0, L}
			for len(cuts) < nr+1 {
				cuts = append(cuts, 1+rng.Intn(L-1))
			}
			sortInts(cuts)
			overlap := rng.Intn(5) == 0
			for r := 0; r < nr; r++ {
				lo, hi := cuts[r], cuts[r+1]
				if hi-lo < 1 {
					continue
				}
				a := lo + rng.Intn((hi-lo+1)/2)
				b := a + 1 + rng.Intn(hi-a)
				if overlap && r > 0 && a > 2 {
					a -= 1 + rng.Intn(minInt(3, a-1))
				}
				cig, seq := genCigar(rng, ref, a, b-a)
				flag := 0
				if r > 0 {
					flag = 2048
				}
				if rng.Intn(2) == 0 {
					flag |= 16
				}
				recs = append(recs, map[string]interface{}{"q": q, "flag": flag, "pos": a, "cig": cig, "seq": symList(seq)})
				if rng.Intn(6) == 0 { // an interleaved secondary / unmapped record of the same query
					cig2, seq2 := genCigar(rng, ref, a, b-a)
					recs = append(recs, map[string]interface{}{"q": q, "flag": []int{256, 4, 260}[rng.Intn(3)], "pos": a, "cig": cig2, "seq": symList(seq2)})
				}
			}
		}
		s := 1 + rng.Intn(L)
		e := s + rng.Intn(L-s+1)
		w := []int{1, 7, 60, L}[rng.Intn(4)]
		run := func(cmd string, pad bool, s, e, w, t int, skip, omit bool) map[string]interface{} {
			return map[string]interface{}{"cmd": cmd, "pad": pad, "s": s, "e": e, "wrap": w, "t": t, "skipins": skip, "omitref": omit}
		}
		runs := []interface{}{run("toma", false, -1, -1, -1, 1, false, false), run("toma", true, -1, -1, -1, 4, false, false),
			run("toma", false, s, e, -1, 2, false, false), run("toma", true, s, e, -1, 1, false, false), run("toma", false, -1, -1, w, 3, false, false),
			run("toma", false, -1, e, -1, 1, false, false), run("toma", true, s, -1, -1, 1, false, false),
			run("topa", false, -1, -1, -1, 2, false, false), run("topa", false, s, e, -1, 1, false, false),
			run("topa", false, -1, -1, -1, 1, true, false), run("topa", false, -1, e, w, 3, false, true), run("topa", false, s, -1, -1, 1, true, false),
			run("samvar", false, -1, -1, -1, 3, false, false), run("topavar", false, -1, -1, -1, 1, false, false),
			run("tomavar", false, -1, -1, -1, 2, false, false)}
		return map[string]interface{}{"id": "randsam-" + itoa(i), "ref": symList(ref), "recs": recs, "runs": runs}
	}
}

func sortInts(a []int) {
	for i := 1; i < len(a); i++ {
		for j := i; j > 0 && a[j] < a[j-1]; j-- {
			a[j], a[j-1] = a[j-1], a[j]
		}
	}
}

func init() {
	// updown: random alignments around an A/C/G/T reference with shared SNPs, multiple hits and ambiguity tracts
	randGens["updown"] = func(rng *rand.Rand, i int) map[string]interface{} {
		w := 12 + rng.Intn(40)
		if i%8 == 5 {
			w = 30 + rng.Intn(20) // (masked vectors below need room for 10 or 20 adjacent SNPs)
		}
		ref := randSeq(rng, w, 0.0)
		lineage := mutate(rng, ref, 0.08, 0.0)
		mk := func() string {
			src := ref
			if rng.Intn(2) == 0 {
				src = lineage
			}
			b := []byte(mutate(rng, src, 0.06, 0.0))
			for k := rng.Intn(3); k > 0; k-- { // ambiguity tracts, also at either end
				a := rng.Intn(w)
				n := 1 + rng.Intn(4)
				if rng.Intn(4) == 0 {
					a = 0
				}
				if rng.Intn(4) == 0 {
					a = w - n
					if a < 0 {
						a = 0
					}
				}
				for j := a; j < a+n && j < w; j++ {
					b[j] = "N-?RY"[rng.Intn(5)]
				}
			}
			return string(b)
		}
		nq := 1 + rng.Intn(3)
		nt := 2 + rng.Intn(18)
		// every eighth vector: bins of more than 12 candidates full of exact ties (few distinct targets, many copies),
		// where an ordering that is not stable shows
		crowded := i%8 == 3
		masked := i%8 == 5 // an N tract of the target over SNP columns of the query: the SNP lists differ by more than the distance
		if crowded {
			nq = 1
			nt = 16 + rng.Intn(24)
		}
		qs := make([]interface{}, nq)
		for k := range qs {
			qs[k] = symList(mk())
		}
		ts := make([]interface{}, nt)
		pool := []string{}
		for k := range ts {
			s := mk()
			if len(pool) > 0 && (rng.Intn(4) == 0 || (crowded && len(pool) >= 4)) {
				s = pool[rng.Intn(len(pool))]
				if crowded && rng.Intn(2) == 0 {
					// same bin and distance, another ambiguity count (later members may be the less ambiguous ones)
					b := []byte(s)
					b[rng.Intn(w)] = 'N'
					s = string(b)
				}
			}
			if crowded && k == 0 {
				s = joinSyms(qs[0].([]interface{})) // the query itself: a crowded 'same' bin
			}
			pool = append(pool, s)
			ts[k] = symList(s)
		}
		o := map[string]interface{}{"sizetotal": 0, "sizeup": 0, "sizedown": 0, "sizeside": 0, "sizesame": 0, "distall": 0, "distup": 0,
			"distdown": 0, "distside": 0, "push": 0, "nofill": rng.Intn(2) == 0, "thrnum": []int{0, 1, 2, 4}[rng.Intn(4)], "thrden": 4,
			"thrtarget": []int{0, 2, 5, 10000}[rng.Intn(4)], "ignore": []int{}, "table": rng.Intn(2) == 0}
		switch rng.Intn(4) {
		case 0:
			o["sizetotal"] = 1 + rng.Intn(12)
		case 1:
			o["sizeup"], o["sizedown"], o["sizeside"], o["sizesame"] = rng.Intn(4), rng.Intn(4), rng.Intn(4), 1+rng.Intn(3)
		case 2:
			o["push"] = 1 + rng.Intn(3)
		default:
			o["distall"] = 1 + rng.Intn(4)
			if rng.Intn(2) == 0 {
				o["sizetotal"] = 1 + rng.Intn(8)
			}
		}
		if masked {
			// query: the reference with SNPs at k adjacent sites; every other target: the query with m of them under an N tract
			// k = 10 or 20 SNPs, so that the masked fraction m/k is a multiple of 0.05 and --threshold-pair can be set exactly on it
			k := 10 * (1 + rng.Intn(2))
			a := rng.Intn(w - k)
			thr10 := 1 + rng.Intn(9) // --threshold-pair = thr10 / 10
			qb := []byte(ref)
			for j := a; j < a+k; j++ {
				qb[j] = "ACGT"[(strings.IndexByte("ACGT", qb[j])+1)%4]
			}
			qs = []interface{}{symList(string(qb))}
			for t := range ts {
				if t%2 == 0 {
					tb := append([]byte{}, qb...)
					m := 2 + rng.Intn(k-1)
					if t%4 == 0 {
						m = thr10 * k / 10 // exactly on the threshold: "up to this proportion" keeps it
					} else if t%4 == 2 && rng.Intn(2) == 0 {
						m = thr10*k/10 + 1 // just over
					}
					for j := a; j < a+m && j < a+k; j++ {
						tb[j] = 'N'
					}
					if rng.Intn(2) == 0 {
						x := (a + k + 1 + rng.Intn(3)) % w // one real difference elsewhere
						tb[x] = "ACGT"[(strings.IndexByte("ACGT", tb[x])+1)%4]
					}
					ts[t] = symList(string(tb))
				}
			}
			o["push"], o["sizetotal"], o["sizeup"], o["sizedown"], o["sizeside"], o["sizesame"] = 0, 0, 0, 0, 0, 0
			o["distall"] = 1 + rng.Intn(2)
			o["thrnum"], o["thrden"], o["thrtarget"], o["ignore"] = thr10, 10, 10000, []int{}
		}
		if crowded {
			o["push"], o["sizetotal"], o["sizeup"], o["sizedown"], o["sizeside"], o["sizesame"] = 0, 0, 0, 0, 0, 0
			o["distall"] = w
			o["thrnum"], o["thrtarget"] = 4, 10000
			switch rng.Intn(3) {
			case 0:
				o["sizetotal"] = 12 + rng.Intn(nt)
			case 1:
				o["sizeup"], o["sizedown"], o["sizeside"], o["sizesame"] = 10+rng.Intn(nt), 10+rng.Intn(nt), 10+rng.Intn(nt), 1+rng.Intn(3)
			}
		}
		if rng.Intn(4) == 0 {
			o["ignore"] = []int{1 + rng.Intn(nt)}
		}
		v := map[string]interface{}{"id": "randud-" + itoa(i), "ref": symList(ref), "queries": qs, "targets": ts, "opts": o, "combos": true,
			"lowq": rng.Intn(5) == 0, "lowt": rng.Intn(5) == 0, "wrapr": []int{0, 0, 7}[rng.Intn(3)], "wrapq": []int{0, 0, 5, 60}[rng.Intn(4)],
			"wrapt": []int{0, 0, 4, 9, 60}[rng.Intn(5)], "crlfq": rng.Intn(6) == 0, "crlft": rng.Intn(6) == 0,
			"nonlr": rng.Intn(5) == 0, "nonlq": rng.Intn(4) == 0, "nonlt": rng.Intn(4) == 0}
		if i%6 == 4 {
			// every file folded at the same width k with w mod k = 1: the last column sits alone on a line in all of them
			for _, k := range []int{4, 5, 3, 7, 2} {
				if w%k == 1 {
					v["wrapr"], v["wrapq"], v["wrapt"] = k, k, k
					break
				}
			}
		}
		return v
	}
}

func init() {
	// C16: structured mutation of valid alignments at byte level
	randGens["fasta"] = func(rng *rand.Rand, i int) map[string]interface{} {
		n := 1 + rng.Intn(5)
		w := 1 + rng.Intn(30)
		var recs []rec
		for k := 0; k < n; k++ {
			name := "s" + itoa(k+1)
			if rng.Intn(3) == 0 {
				name += " description " + itoa(k)
			}
			recs = append(recs, rec{name: name, seq: randSeq(rng, w, 0.2)})
		}
		b := renderFasta(recs, []int{0, 1, 3, 60}[rng.Intn(4)], rng.Intn(3) == 0)
		if i%100 == 11 {
			// valid alignments that do not fit the readers' buffers: 70,000 columns on one line, 4,090 on one line (the next header
			// falls behind the first 4 kB), 6,000 and 29,903 columns wrapped at 60 / 70 - every reader reads them, and alike
			shapes := [][2]int{{70000, 0}, {4090, 0}, {6000, 60}, {29903, 70}, {4100, 1000}}
			sh := shapes[(i/100)%len(shapes)]
			wide := []rec{{"s1", randSeq(rng, sh[0], 0.0)}, {"s2 wide", randSeq(rng, sh[0], 0.0)}, {"s3", randSeq(rng, sh[0], 0.0)}}
			bw := renderFasta(wide, sh[1], (i/100)%2 == 1)
			raw := make([]int, len(bw))
			for k, x := range bw {
				raw[k] = int(x)
			}
			return map[string]interface{}{"id": "randfa-wide-" + itoa(sh[0]) + "-" + itoa(sh[1]) + "-" + itoa(i), "raw": raw, "valid": 3}
		}
		if rng.Intn(5) == 0 {
			b = []byte(strings.ToLower(string(b)))
		}
		for m := rng.Intn(4); m > 0 && len(b) > 0; m-- {
			switch rng.Intn(8) {
			case 0: // flip a byte
				b[rng.Intn(len(b))] = byte(rng.Intn(256))
			case 1: // truncate
				b = b[:rng.Intn(len(b)+1)]
			case 2: // duplicate a line
				ls := strings.SplitAfter(string(b), "\n")
				k := rng.Intn(len(ls))
				ls = append(ls[:k+1], ls[k:]...)
				b = []byte(strings.Join(ls, ""))
			case 3: // insert a blank line
				ls := strings.SplitAfter(string(b), "\n")
				k := rng.Intn(len(ls) + 1)
				ls = append(ls[:k], append([]string{"\n"}, ls[k:]...)...)
				b = []byte(strings.Join(ls, ""))
			case 4: // a header with nothing after '>'
				ls := strings.SplitAfter(string(b), "\n")
				k := rng.Intn(len(ls) + 1)
				ls = append(ls[:k], append([]string{[]string{">\n", "> \n", ">\t\n", ">"}[rng.Intn(4)]}, ls[k:]...)...)
				b = []byte(strings.Join(ls, ""))
			case 5: // delete a byte
				k := rng.Intn(len(b))
				b = append(b[:k], b[k+1:]...)
			case 6: // a very long line
				b = append(b, []byte(strings.Repeat("ACGT", 1+rng.Intn(5000))+"\n")...)
			case 7: // lone carriage returns / NUL
				b[rng.Intn(len(b))] = []byte{'\r', 0, ' ', '\t'}[rng.Intn(4)]
			}
		}
		raw := make([]int, len(b))
		for k, x := range b {
			raw[k] = int(x)
		}
		return map[string]interface{}{"id": "randfa-" + itoa(i), "raw": raw}
	}
}

func init() {
	// variants: random genome, random coding features (either strand, 1-3 segments, any codon_start), random queries
	randGens["variants"] = func(rng *rand.Rand, i int) map[string]interface{} {
		L := 30 + rng.Intn(40)
		genome := randSeq(rng, L, 0.0)
		nf := 1 + rng.Intn(3)
		feats := []interface{}{}
		for f := 0; f < nf; f++ {
			// 1-3 disjoint ascending segments inside the genome
			nseg := 1 + rng.Intn(3)
			cuts := map[int]bool{}
			for len(cuts) < 2*nseg {
				cuts[1+rng.Intn(L)] = true
			}
			var cs []int
			for c := range cuts {
				cs = append(cs, c)
			}
			sortInts(cs)
			var segs [][2]int
			total := 0
			for k := 0; k+1 < len(cs); k += 2 {
				segs = append(segs, [2]int{cs[k], cs[k+1]})
				total += cs[k+1] - cs[k] + 1
			}
			cstart := 1 + rng.Intn(3)
			// make (total - (cstart-1)) a multiple of three by shortening the last segment (3'-most in genome order)
			for (total-(cstart-1))%3 != 0 || total-(cstart-1) <= 0 {
				last := &segs[len(segs)-1]
				if last[1] > last[0] {
					last[1]--
					total--
				} else if len(segs) > 1 {
					segs = segs[:len(segs)-1]
					total--
				} else {
					cstart = 1
					if last[1]+1 <= L {
						last[1]++
						total++
					} else {
						last[0]--
						total++
					}
				}
				if total < 3 {
					segs = [][2]int{{1, 3}}
					total, cstart = 3, 1
				}
			}
			strand := 1
			if rng.Intn(2) == 0 {
				strand = -1
			}
			if total-(cstart-1) > 60 { // the validator looks at up to 20 codons
				continue
			}
			// GFF3: the phase of a row is smaller than the row; keep the 5'-most segment at least 3 bases long
			first := segs[0]
			if strand == -1 {
				first = segs[len(segs)-1]
			}
			if first[1]-first[0]+1 < 3 {
				continue
			}
			// translation order: reverse strand lists the segments from the highest coordinates down
			order := make([]interface{}, 0, len(segs))
			if strand == 1 {
				for _, s := range segs {
					order = append(order, []interface{}{s[0], s[1]})
				}
			} else {
				for k := len(segs) - 1; k >= 0; k-- {
					order = append(order, []interface{}{segs[k][0], segs[k][1]})
				}
				// codon_start counts from the 5' end of the transcript: with the shortening above the length rule still holds
			}
			feats = append(feats, map[string]interface{}{"name": "g" + itoa(f+1), "kind": "CDS", "named": true, "strand": strand,
				"segs": order, "cstart": cstart, "gbform": rng.Intn(2)})
		}
		// reference row with a few gap blocks; queries fill them with bases or gaps
		type gap struct{ after, n int }
		var gaps []gap
		for k := rng.Intn(3); k > 0; k-- {
			gaps = append(gaps, gap{rng.Intn(L + 1), 1 + rng.Intn(3)})
		}
		row := func(seq string, fill func() byte) string {
			var b []byte
			for p := 0; p <= L; p++ {
				for _, g := range gaps {
					if g.after == p {
						for j := 0; j < g.n; j++ {
							b = append(b, fill())
						}
					}
				}
				if p < L {
					b = append(b, seq[p])
				}
			}
			return string(b)
		}
		R := row(genome, func() byte { return '-' })
		nq := 3 + rng.Intn(10)
		qs := make([]interface{}, nq)
		for k := range qs {
			s := []byte(genome)
			for m := rng.Intn(5); m > 0; m-- {
				p := rng.Intn(L)
				switch rng.Intn(6) {
				case 0:
					s[p] = "RYKMSWN"[rng.Intn(7)]
				case 1:
					s[p] = '-'
					if p+1 < L && rng.Intn(2) == 0 {
						s[p+1] = '-'
					}
				default:
					s[p] = "ACGT"[rng.Intn(4)]
				}
			}
			ins := rng.Intn(3) == 0
			qs[k] = symList(row(string(s), func() byte {
				if ins {
					return "ACGT"[rng.Intn(4)]
				}
				return '-'
			}))
		}
		run := func(cmd, anno string, app bool, s, e int, agg bool, thr, t int) map[string]interface{} {
			return map[string]interface{}{"cmd": cmd, "anno": anno, "append": app, "s": s, "e": e, "agg": agg, "thr": thr, "t": t, "stdin": false}
		}
		ws := 1 + rng.Intn(L)
		we := ws + rng.Intn(L-ws+1)
		runs := []interface{}{run("variants", "gb", false, -1, -1, false, 0, 1), run("variants", "gb", true, -1, -1, false, 0, 3),
			run("variants", "gff", true, -1, -1, false, 0, 2), run("variants", "gff", false, -1, -1, false, 0, 1),
			run("samvar", "gb", true, -1, -1, false, 0, 2), run("topa-variants", "gb", true, -1, -1, false, 0, 1), run("samvar", "gff", true, -1, -1, false, 0, 1),
			run("variants", "gb", true, ws, we, false, 0, 1), run("variants", "gb", true, ws, -1, false, 0, 1), run("samvar", "gb", true, -1, we, false, 0, 1),
			run("variants", "gb", true, -1, -1, true, []int{0, 100, 250, 500}[rng.Intn(4)], 2)}
		return map[string]interface{}{"id": "randvar-" + itoa(i), "kind": "anno", "R": symList(R), "qs": qs, "feats": feats, "runs": runs,
			"wrap": []int{0, 0, 7, 60}[rng.Intn(4)], "crlf": rng.Intn(5) == 0, "lowq": rng.Intn(4) == 0}
	}
}
