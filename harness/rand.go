package main

// gen-rand <family> <n> <out>: seeded random vectors far outside TLC's enumeration bounds,
// restricted to each property's stated domain.

import (
	"math/rand"
	"strconv"
	"strings"
)

type randGen func(rng *rand.Rand, i int) map[string]interface{}

var randGens = map[string]randGen{}

const syms17 = "ACGTRYSWKMBDHVN-?"

func cmdGenRand(args []string) {
	if len(args) < 3 {
		die("usage: gen-rand <family> <n> <out>")
	}
	g, ok := randGens[args[0]]
	if !ok {
		die("no random generator for %q", args[0])
	}
	n, _ := strconv.Atoi(args[1])
	f := mustCreate(args[2])
	w := newObsWriter(f)
	rng := rand.New(rand.NewSource(seedFromEnv()*7919 + int64(len(args[0]))))
	for i := 0; i < n; i++ {
		w.write(g(rng, i))
	}
	w.flush()
	f.Close()
}

func symList(s string) []interface{} {
	out := make([]interface{}, len(s))
	for i := 0; i < len(s); i++ {
		out[i] = string(s[i])
	}
	return out
}

// randSeq draws a sequence; pAmb = probability of a non-ACGT symbol per site.
func randSeq(rng *rand.Rand, n int, pAmb float64) string {
	b := make([]byte, n)
	for i := range b {
		if rng.Float64() < pAmb {
			b[i] = syms17[4+rng.Intn(13)]
		} else {
			b[i] = "ACGT"[rng.Intn(4)]
		}
	}
	return string(b)
}

// mutate copies s, changing each site with probability p to a random symbol (ambiguity with pAmb).
func mutate(rng *rand.Rand, s string, p, pAmb float64) string {
	b := []byte(s)
	for i := range b {
		if rng.Float64() < p {
			if rng.Float64() < pAmb {
				b[i] = syms17[4+rng.Intn(13)]
			} else {
				b[i] = "ACGT"[rng.Intn(4)]
			}
		}
	}
	return string(b)
}

func init() {
	randGens["snps"] = func(rng *rand.Rand, i int) map[string]interface{} {
		w := 5 + rng.Intn(120)
		ref := randSeq(rng, w, 0.1)
		nq := 1 + rng.Intn(30)
		qs := make([]interface{}, nq)
		// a few shared mutations so that aggregate frequencies are interesting
		base := mutate(rng, ref, 0.05, 0.2)
		for k := range qs {
			src := ref
			if rng.Intn(2) == 0 {
				src = base
			}
			qs[k] = symList(mutate(rng, src, 0.08, 0.4))
		}
		thr := -1
		if rng.Intn(2) == 0 {
			// either an occurring frequency k/n with a finite 3-decimal expansion or an arbitrary thousandth
			thr = rng.Intn(1001)
			if rng.Intn(2) == 0 {
				k := rng.Intn(nq + 1)
				if (k*1000)%nq == 0 {
					thr = k * 1000 / nq
				}
			}
		}
		return map[string]interface{}{"id": "rand-" + itoa(i), "ref": symList(ref), "qs": qs,
			"hard": rng.Intn(2) == 0, "lowr": rng.Intn(4) == 0, "lowq": rng.Intn(4) == 0,
			"wrap": []int{0, 0, 1, 7, 60}[rng.Intn(5)], "crlf": rng.Intn(4) == 0, "thr": thr}
	}
}

func init() {
	// C07: pairs and small target sets, any measure; plain or table
	randGens["closest7"] = func(rng *rand.Rand, i int) map[string]interface{} {
		w := 10 + rng.Intn(290)
		q := randSeq(rng, w, 0.05)
		nt := 1 + rng.Intn(4)
		ts := make([]interface{}, nt)
		for k := range ts {
			ts[k] = symList(mutate(rng, q, 0.02+0.2*rng.Float64(), 0.2))
		}
		measure := []string{"raw", "snp", "tn93"}[rng.Intn(3)]
		plain := nt == 1 && rng.Intn(2) == 0
		n := nt
		if plain {
			n = 0
		}
		return map[string]interface{}{"id": "rand7-" + itoa(i), "queries": []interface{}{symList(q)}, "targets": ts,
			"measure": measure, "n": n, "d": -1, "table": !plain, "threads": 1}
	}
	// C06: many near-identical targets (ties, duplicates, ambiguous and all-N targets), raw / snp
	randGens["closest6"] = func(rng *rand.Rand, i int) map[string]interface{} {
		w := 12 + rng.Intn(60)
		anc := randSeq(rng, w, 0.0)
		nq := 1 + rng.Intn(3)
		qs := make([]interface{}, nq)
		for k := range qs {
			qs[k] = symList(mutate(rng, anc, 0.05, 0.3))
		}
		nt := 2 + rng.Intn(25)
		ts := make([]interface{}, nt)
		pool := []string{}
		for k := range ts {
			var s string
			switch r := rng.Intn(10); {
			case r == 0:
				s = strings.Repeat("N", w)
			case r <= 3 && len(pool) > 0:
				s = pool[rng.Intn(len(pool))] // duplicate
			case r <= 5 && len(pool) > 0:
				// same distance, different completeness: change a site to a compatible ambiguity code
				b := []byte(pool[rng.Intn(len(pool))])
				b[rng.Intn(w)] = 'N'
				s = string(b)
			default:
				s = mutate(rng, anc, 0.08, 0.15)
			}
			pool = append(pool, s)
			ts[k] = symList(s)
		}
		measure := []string{"raw", "snp"}[rng.Intn(2)]
		n := []int{0, 1, 2, 3, 5, 8, 40}[rng.Intn(7)]
		d := -1
		if rng.Intn(3) == 0 {
			if measure == "snp" {
				d = rng.Intn(6)
			} else {
				d = []int{0, 50, 100, 125, 200, 250, 500}[rng.Intn(7)]
			}
		}
		return map[string]interface{}{"id": "rand6-" + itoa(i), "queries": qs, "targets": ts,
			"measure": measure, "n": n, "d": d, "table": rng.Intn(2) == 0, "threads": []int{1, 2, 4, 0}[rng.Intn(4)], "mono": false}
	}
}
