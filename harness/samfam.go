package main

// Family "sam": sam toMultiAlign / sam toPairAlign on abstract SAM blocks (C01, C02, C15).
//
// vec: ref [sym], recs [{q, flag, pos, cig [[op,len]...], seq [sym]}],
//      runs [{cmd "toma"|"topa", pad, s, e, wrap, t, skipins, omitref}]
// obs: runs [{err, recs [{qi, seq [sym], lens [int]}]}]                         (toma)
//           [{err, pairs [{qi, hasref, r [sym], q [sym], rlens, qlens}]}]       (topa)

import (
	"bytes"
	"os"
	"path/filepath"
	"sort"
	"strings"

	"github.com/virus-evolution/gofasta/pkg/sam"
	"github.com/virus-evolution/gofasta/pkg/variants"
)

func init() {
	families["sam"] = runSamFam
}

func cigarString(l []interface{}) string {
	var sb strings.Builder
	for _, x := range l {
		p := x.([]interface{})
		op, _ := p[0].(string)
		n, _ := p[1].(float64)
		sb.WriteString(itoa(int(n)))
		sb.WriteString(op)
	}
	return sb.String()
}

func vecSam(vec map[string]interface{}) ([]byte, []byte, string) {
	ref := gSeq(vec, "ref")
	var srecs []samRec
	for _, x := range gList(vec, "recs") {
		m := gMap(x)
		srecs = append(srecs, samRec{name: "q" + itoa(gInt(m, "q")), flag: gIntD(m, "flag", 0), pos: gInt(m, "pos"),
			cigar: cigarString(gList(m, "cig")), seq: gSeq(m, "seq")})
	}
	return renderSam("ref", len(ref), srecs), renderFasta([]rec{{"ref", ref}}, 0, false), ref
}

type faRec struct {
	name string
	seq  string
	lens []int
}

// parseFasta splits FASTA text into records, remembering the length of every sequence line.
func parseFasta(text string) []faRec {
	var out []faRec
	for _, l := range lines(text) {
		if strings.HasPrefix(l, ">") {
			out = append(out, faRec{name: strings.TrimSpace(l[1:]), lens: []int{}})
			continue
		}
		if len(out) == 0 {
			out = append(out, faRec{name: "?", lens: []int{}})
		}
		out[len(out)-1].seq += l
		out[len(out)-1].lens = append(out[len(out)-1].lens, len(l))
	}
	return out
}

func runSamFam(vec map[string]interface{}) map[string]interface{} {
	samData, refFa, _ := vecSam(vec)
	obs := map[string]interface{}{}
	var results []interface{}
	for _, x := range gList(vec, "runs") {
		r := gMap(x)
		res := map[string]interface{}{}
		s, e := gIntD(r, "s", -1), gIntD(r, "e", -1)
		wrap := gIntD(r, "wrap", -1)
		t := gIntD(r, "t", 1)
		switch gStr(r, "cmd") {
		case "samvar", "topavar", "tomavar":
			// sam variants on the abstract block, and variants on the real toPairAlign output of the same block (C11, C05)
			anno := renderGenbank(gSeq(vec, "ref"), nil)
			var out bytes.Buffer
			var err error
			ok := true
			if gStr(r, "cmd") == "samvar" {
				err, ok = callWithDeadline(callDeadline, func() error {
					return sam.Variants(bytes.NewReader(samData), bytes.NewReader(refFa), true, bytes.NewReader(anno), "gb", &out, -1, -1, false, 0.0, false, t)
				})
			} else if gStr(r, "cmd") == "tomavar" {
				// the other FASTA form: the padded toMultiAlign rows placed in an alignment with the reference (judged for
				// queries without insertions)
				var rowsFa bytes.Buffer
				err, ok = callWithDeadline(callDeadline, func() error {
					return sam.ToMultiAlign(bytes.NewReader(samData), &rowsFa, -1, -1, -1, true, 1)
				})
				if ok && err == nil {
					msa := append(append([]byte{}, refFa...), rowsFa.Bytes()...)
					err, ok = callWithDeadline(callDeadline, func() error {
						return variants.Variants(bytes.NewReader(msa), false, "ref", bytes.NewReader(anno), "gb", &out, -1, -1, false, 0.0, false, t)
					})
				}
			} else {
				err, ok = topaVariants(samData, refFa, anno, "gb", -1, -1, false, &out)
			}
			if !ok {
				obs["timeout"] = true
				return obs
			}
			pv := parseVariantsOut(out.String(), false)
			res["err"] = errStr(err)
			res["rows"] = pv["rows"]
		case "toma":
			var out bytes.Buffer
			err, ok := callWithDeadline(callDeadline, func() error {
				return sam.ToMultiAlign(bytes.NewReader(samData), &out, wrap, s, e, gBool(r, "pad"), t)
			})
			if !ok {
				obs["timeout"] = true
				return obs
			}
			res["err"] = errStr(err)
			if gBool(vec, "cli") && err == nil {
				args := []string{"sam", "toMultiAlign", "-s", "@in.sam", "-t", itoa(t)}
				args = flagInt(flagInt(flagInt(args, "--start", s, -1), "--end", e, -1), "-w", wrap, -1)
				args = flagBool(args, "--pad", gBool(r, "pad"))
				for k, v := range cliRun(cliCase{files: map[string][]byte{"in.sam": samData}, args: args, inproc: out.String(), outflag: "-o"}) {
					res[k] = v
				}
			}
			recs := []interface{}{}
			for _, fr := range parseFasta(out.String()) {
				recs = append(recs, map[string]interface{}{"qi": nameIndex(fr.name, "q"), "seq": symList(fr.seq), "lens": fr.lens})
			}
			res["recs"] = recs
		case "topa":
			work := os.Getenv("VERIF_WORK")
			if work == "" {
				work = os.TempDir()
			}
			dir, derr := os.MkdirTemp(work, "topa-")
			if derr != nil {
				die("%v", derr)
			}
			err, ok := callWithDeadline(callDeadline, func() error {
				return sam.ToPairAlign(bytes.NewReader(samData), bytes.NewReader(refFa), dir, wrap, s, e, gBool(r, "omitref"), gBool(r, "skipins"), t)
			})
			if !ok {
				obs["timeout"] = true
				os.RemoveAll(dir)
				return obs
			}
			res["err"] = errStr(err)
			pairs := []interface{}{}
			files, _ := filepath.Glob(filepath.Join(dir, "*.fasta"))
			sort.Strings(files)
			if gBool(vec, "cli") && err == nil {
				inprocD := map[string]string{}
				for _, f := range files {
					b, _ := os.ReadFile(f)
					inprocD[filepath.Base(f)] = string(b)
				}
				args := []string{"sam", "toPairAlign", "-s", "@in.sam", "-r", "@ref.fa", "-o", "@outdir", "-t", itoa(t)}
				args = flagInt(flagInt(flagInt(args, "--start", s, -1), "--end", e, -1), "-w", wrap, -1)
				args = flagBool(flagBool(args, "--omit-reference", gBool(r, "omitref")), "--skip-insertions", gBool(r, "skipins"))
				wiring := cliRun(cliCase{files: map[string][]byte{"in.sam": samData, "ref.fa": refFa}, args: args, outdir: "outdir", inprocD: inprocD})
				if same, _ := wiring["cli_same"].(bool); same {
					// "-o stdout": the pairs one after the other, in the order of the queries in the SAM file
					var want strings.Builder
					seen := map[int]bool{}
					for _, x := range gList(vec, "recs") {
						q := gInt(gMap(x), "q")
						if !seen[q] {
							seen[q] = true
							want.WriteString(inprocD["q"+itoa(q)+".fasta"])
						}
					}
					a2 := append([]string{}, args...)
					for i := range a2 {
						if a2[i] == "@outdir" {
							a2[i] = "stdout"
						}
					}
					wiring = cliRun(cliCase{files: map[string][]byte{"in.sam": samData, "ref.fa": refFa}, args: a2, inproc: want.String()})
				}
				for k, v := range wiring {
					res[k] = v
				}
			}
			for _, f := range files {
				b, _ := os.ReadFile(f)
				frs := parseFasta(string(b))
				p := map[string]interface{}{"qi": nameIndex(strings.TrimSuffix(filepath.Base(f), ".fasta"), "q"),
					"nrec": len(frs), "hasref": false, "r": []interface{}{}, "rlens": []int{}}
				for _, fr := range frs {
					if fr.name == "ref" {
						p["hasref"] = true
						p["r"] = symList(fr.seq)
						p["rlens"] = fr.lens
					} else {
						p["q"] = symList(fr.seq)
						p["qlens"] = fr.lens
						p["qname"] = nameIndex(fr.name, "q")
					}
				}
				if _, ok := p["q"]; !ok {
					p["q"] = []interface{}{}
					p["qlens"] = []int{}
					p["qname"] = -1
				}
				pairs = append(pairs, p)
			}
			os.RemoveAll(dir)
			res["pairs"] = pairs
		}
		results = append(results, res)
	}
	obs["runs"] = results
	return obs
}
