package main

// Family "variants": variants / sam variants on an abstract gapped pair set with an abstract
// annotation, rendered as GenBank or GFF3 (C04, C05, C11, C13, C14, C15).
//
// vec: R [sym] gapped reference row; qs [[sym]] rows aligned to it;
//      feats [{name, kind "CDS"|"mat", named, strand 1|-1, segs [[a,b]...] in translation order, cstart 1..3, gbform 0|1}]
//      runs [{cmd "variants"|"samvar"|"topa-variants", anno "gb"|"gff", append, s, e, agg, thr, t, stdin}]
// obs: runs [{err, header, rows [{qi, muts [mut]}], agg [{mut, freq}]}]
//      mut = {t, p, l, r, a, f, k, snps [[r,p,a]...]}

import (
	"bytes"
	"fmt"
	"os"
	"path/filepath"
	"regexp"
	"sort"
	"strconv"
	"strings"

	"github.com/virus-evolution/gofasta/pkg/sam"
	"github.com/virus-evolution/gofasta/pkg/variants"
)

func init() {
	families["variants"] = runVarFam
}

const stdAAs = "FFLLSSSSYY**CC*WLLLLPPPPHHQQRRRRIIIMTTTTNNKKSSRRVVVVAAAADDEEGGGG"

func stdTranslate(codon string) byte {
	idx := func(b byte) int { return strings.IndexByte("TCAG", b) }
	a, b, c := idx(codon[0]), idx(codon[1]), idx(codon[2])
	if a < 0 || b < 0 || c < 0 {
		return 'X'
	}
	return stdAAs[16*a+4*b+c]
}

func compBase(b byte) byte {
	switch b {
	case 'A':
		return 'T'
	case 'T':
		return 'A'
	case 'C':
		return 'G'
	case 'G':
		return 'C'
	}
	return b
}

type vfeat struct {
	name   string
	kind   string
	named  bool
	strand int
	segs   [][2]int // translation order
	cstart int
	gbform int
}

func parseFeats(l []interface{}) []vfeat {
	var out []vfeat
	for _, x := range l {
		m := gMap(x)
		f := vfeat{name: gStr(m, "name"), kind: gStr(m, "kind"), named: gBool(m, "named"), strand: gInt(m, "strand"),
			cstart: gIntD(m, "cstart", 1), gbform: gIntD(m, "gbform", 0)}
		for _, s := range gList(m, "segs") {
			p := intList(s.([]interface{}))
			f.segs = append(f.segs, [2]int{p[0], p[1]})
		}
		out = append(out, f)
	}
	return out
}

// positions in translation order (before codon_start is applied)
func (f vfeat) positions() []int {
	var ps []int
	for _, s := range f.segs {
		if f.strand == 1 {
			for p := s[0]; p <= s[1]; p++ {
				ps = append(ps, p)
			}
		} else {
			for p := s[1]; p >= s[0]; p-- {
				ps = append(ps, p)
			}
		}
	}
	return ps
}

func (f vfeat) translation(ref string) string {
	ps := f.positions()[f.cstart-1:]
	var aa []byte
	for i := 0; i+2 < len(ps); i += 3 {
		c := []byte{ref[ps[i]-1], ref[ps[i+1]-1], ref[ps[i+2]-1]}
		if f.strand == -1 {
			for k := range c {
				c[k] = compBase(c[k])
			}
		}
		aa = append(aa, stdTranslate(string(c)))
	}
	return string(aa)
}

func (f vfeat) gbLocation() string {
	rng := func(s [2]int) string { return itoa(s[0]) + ".." + itoa(s[1]) }
	if f.strand == 1 {
		if len(f.segs) == 1 {
			return rng(f.segs[0])
		}
		parts := []string{}
		for _, s := range f.segs {
			parts = append(parts, rng(s))
		}
		return "join(" + strings.Join(parts, ",") + ")"
	}
	if len(f.segs) == 1 {
		return "complement(" + rng(f.segs[0]) + ")"
	}
	if f.gbform == 0 {
		// complement(join(...)) lists the segments in ascending genome order
		parts := []string{}
		for i := len(f.segs) - 1; i >= 0; i-- {
			parts = append(parts, rng(f.segs[i]))
		}
		return "complement(join(" + strings.Join(parts, ",") + "))"
	}
	parts := []string{}
	for _, s := range f.segs {
		parts = append(parts, "complement("+rng(s)+")")
	}
	return "join(" + strings.Join(parts, ",") + ")"
}

func renderGb(ref string, feats []vfeat) []byte {
	var gf []gbFeat
	for _, f := range feats {
		if !f.named {
			continue
		}
		tr := f.translation(ref)
		tr = strings.TrimSuffix(tr, "*")
		gf = append(gf, gbFeat{loc: f.gbLocation(), gene: f.name, start: f.cstart, trans: tr})
	}
	return renderGenbank(ref, gf)
}

// gffPlain: no ##FASTA section (the last line of the file is a feature row) and Name as the last attribute of every row.
var gffPlain bool

func renderGff(ref string, feats []vfeat) []byte {
	var b bytes.Buffer
	b.WriteString("##gff-version 3\n")
	fmt.Fprintf(&b, "##sequence-region ref 1 %d\n", len(ref))
	b.WriteString("#a comment line\n")
	fmt.Fprintf(&b, "ref\t.\tregion\t1\t%d\t.\t+\t.\tID=ref:1..%d;Is_circular=false\n", len(ref), len(ref))
	for fi, f := range feats {
		if f.kind == "CDS" {
			// features of other types are to be ignored
			lo, hi := f.segs[0][0], f.segs[0][1]
			for _, sg := range f.segs {
				if sg[0] < lo {
					lo = sg[0]
				}
				if sg[1] > hi {
					hi = sg[1]
				}
			}
			st := "+"
			if f.strand == -1 {
				st = "-"
			}
			fmt.Fprintf(&b, "ref\t.\tgene\t%d\t%d\t.\t%s\t.\tID=gene%d;Name=gene%d\n", lo, hi, st, fi, fi)
		}
		typ := "CDS"
		if f.kind == "mat" {
			typ = "mature_protein_region_of_CDS"
		}
		strand := "+"
		if f.strand == -1 {
			strand = "-"
		}
		// phases per row in translation order (GFF3: bases to skip to reach the next codon start)
		phases := make([]int, len(f.segs))
		consumed := 0
		for i, s := range f.segs {
			n := s[1] - s[0] + 1
			if i == 0 {
				phases[i] = f.cstart - 1
				consumed = n - phases[i]
			} else {
				phases[i] = (3 - consumed%3) % 3
				consumed += n
			}
		}
		// rows in ascending genome order
		order := make([]int, len(f.segs))
		for i := range order {
			if f.strand == 1 {
				order[i] = i
			} else {
				order[i] = len(f.segs) - 1 - i
			}
		}
		for _, i := range order {
			attrs := "ID=f" + itoa(fi)
			if f.kind == "CDS" {
				attrs += ";Parent=gene" + itoa(fi)
			}
			// application attributes (lower-case tags are free for applications, GFF3 reserves the capitalised ones only)
			app := ";Note=synthetic,feature;name=an application tag;id=row" + itoa(i)
			if gffPlain {
				// Name as the last attribute of the row (whatever ends the line is next to it)
				attrs += app
				app = ""
			}
			if f.named {
				attrs += ";Name=" + f.name
			}
			attrs += app
			ph := itoa(phases[i])
			fmt.Fprintf(&b, "ref\t.\t%s\t%d\t%d\t.\t%s\t%s\t%s\n", typ, f.segs[i][0], f.segs[i][1], strand, ph, attrs)
		}
	}
	if !gffPlain {
		b.WriteString("##FASTA\n>ref\n" + ref + "\n")
	}
	return b.Bytes()
}

// sortGffRows puts the feature rows of a GFF3 into coordinate order (stable: rows with the same start keep their order),
// the layout of most published GFF3 files; the rows of a spliced CDS are then separated by whatever starts between them.
func sortGffRows(gff []byte) []byte {
	var head, rows, tail []string
	inTail := false
	for _, l := range strings.SplitAfter(string(gff), "\n") {
		switch {
		case l == "":
		case inTail || strings.HasPrefix(l, "##FASTA"):
			inTail = true
			tail = append(tail, l)
		case strings.HasPrefix(l, "#"):
			head = append(head, l)
		default:
			rows = append(rows, l)
		}
	}
	start := func(l string) int {
		f := strings.Split(l, "\t")
		n, _ := strconv.Atoi(f[3])
		return n
	}
	sort.SliceStable(rows, func(i, j int) bool { return start(rows[i]) < start(rows[j]) })
	return []byte(strings.Join(head, "") + strings.Join(rows, "") + strings.Join(tail, ""))
}

// pairToSam derives the SAM record of a query from its row against the gapped reference row.
func pairToSam(R, Q string, name string) (samRec, bool) {
	type col struct{ r, q byte }
	var cols []col
	for i := 0; i < len(R); i++ {
		if R[i] == '-' && Q[i] == '-' {
			continue
		}
		cols = append(cols, col{R[i], Q[i]})
	}
	// leading / trailing deleted reference: not covered by the record
	pos := 0
	for len(cols) > 0 && cols[0].q == '-' {
		pos++
		cols = cols[1:]
	}
	for len(cols) > 0 && cols[len(cols)-1].q == '-' {
		cols = cols[:len(cols)-1]
	}
	if len(cols) == 0 {
		return samRec{}, false
	}
	var cig strings.Builder
	var seq []byte
	last, n := byte(0), 0
	flush := func() {
		if n > 0 {
			cig.WriteString(itoa(n))
			cig.WriteByte(last)
		}
	}
	aligned := false
	for _, c := range cols {
		var op byte
		switch {
		case c.r == '-':
			op = 'I'
			seq = append(seq, c.q)
		case c.q == '-':
			op = 'D'
		default:
			op = 'M'
			seq = append(seq, c.q)
			aligned = true
		}
		if op != last {
			flush()
			last, n = op, 0
		}
		n++
	}
	flush()
	if !aligned {
		return samRec{}, false
	}
	return samRec{name: name, pos: pos, cigar: cig.String(), seq: strings.ToUpper(string(seq))}, true
}

var aaRe = regexp.MustCompile(`^aa:([^:]*):(.)(\d+)(.)(?:\((.*)\))?$`)
var nucRe = regexp.MustCompile(`^nuc:(.)(\d+)(.)$`)
var indelRe = regexp.MustCompile(`^(ins|del):(-?\d+):(\d+)$`)

func parseMut(s string) map[string]interface{} {
	m := map[string]interface{}{"t": "?", "p": -1, "l": -1, "r": "", "a": "", "f": "", "k": -1, "snps": []interface{}{}, "text": s}
	if x := indelRe.FindStringSubmatch(s); x != nil {
		m["t"] = x[1]
		m["p"], _ = strconv.Atoi(x[2])
		m["l"], _ = strconv.Atoi(x[3])
	} else if x := nucRe.FindStringSubmatch(s); x != nil {
		m["t"] = "nuc"
		m["r"] = x[1]
		m["p"], _ = strconv.Atoi(x[2])
		m["a"] = x[3]
	} else if x := aaRe.FindStringSubmatch(s); x != nil {
		m["t"] = "aa"
		m["f"] = x[1]
		m["r"] = x[2]
		m["k"], _ = strconv.Atoi(x[3])
		m["a"] = x[4]
		sn := []interface{}{}
		if x[5] != "" {
			for _, n := range strings.Split(x[5], ";") {
				if y := nucRe.FindStringSubmatch(n); y != nil {
					p, _ := strconv.Atoi(y[2])
					sn = append(sn, []interface{}{y[1], p, y[3]})
				} else {
					sn = append(sn, []interface{}{"!", -1, n})
				}
			}
		}
		m["snps"] = sn
	}
	return m
}

func parseVariantsOut(text string, agg bool) map[string]interface{} {
	res := map[string]interface{}{"header": "", "rows": []interface{}{}, "agg": []interface{}{}}
	ls := lines(text)
	if len(ls) == 0 {
		return res
	}
	res["header"] = ls[0]
	rows := []interface{}{}
	aggs := []interface{}{}
	for _, l := range ls[1:] {
		if agg {
			i := strings.LastIndex(l, ",")
			e := map[string]interface{}{"freq": -1}
			if i >= 0 {
				e["mut"] = parseMut(l[:i])
				if v, ok := parseDec9(l[i+1:]); ok {
					e["freq"] = v
				}
			} else {
				e["mut"] = parseMut(l)
			}
			aggs = append(aggs, e)
			continue
		}
		f := strings.SplitN(l, ",", 2)
		row := map[string]interface{}{"qi": nameIndex(f[0], "q")}
		muts := []interface{}{}
		if len(f) == 2 {
			for _, s := range splitNonEmpty(f[1], "|") {
				muts = append(muts, parseMut(s))
			}
		}
		row["muts"] = muts
		rows = append(rows, row)
	}
	res["rows"] = rows
	res["agg"] = aggs
	return res
}

func runVarFam(vec map[string]interface{}) map[string]interface{} {
	R := gSeq(vec, "R")
	ref := strings.ReplaceAll(R, "-", "")
	qs := seqList(gList(vec, "qs"), "q", false)
	for i := range qs {
		qs[i].name = "q" + itoa(i) // 0-based like the SAM families
	}
	if gBool(vec, "dupname") && len(qs) > 2 {
		// two records carry one ID (the same sequence submitted twice, one after the other; and once more at the end):
		// each is a row of the per-sequence output, each is counted
		qs[1] = qs[0]
		qs[len(qs)-1].name = qs[0].name
	}
	if k := gIntD(vec, "refnamed", -1); k >= 0 && k < len(qs) {
		qs[k].name = "ref" // a query named like the reference record of the annotation (its accession included in the SAM file)
	}
	feats := parseFeats(gList(vec, "feats"))
	gb := renderGb(ref, feats)
	gff := renderGff(ref, feats)
	gffP := gff // the form given to the runs that do not take the reference from the annotation
	if gBool(vec, "gffplain") {
		gffPlain = true
		gffP = renderGff(ref, feats)
		gffPlain = false
	}
	// the text layout of the annotation file must not matter: CRLF line ends, an unterminated last line
	if gBool(vec, "annocrlf") {
		gff = bytes.ReplaceAll(gff, []byte("\n"), []byte("\r\n"))
		gffP = bytes.ReplaceAll(gffP, []byte("\n"), []byte("\r\n"))
		gb = bytes.ReplaceAll(gb, []byte("\n"), []byte("\r\n"))
	}
	if gBool(vec, "annononl") {
		gff, gb, gffP = chopNl(gff, true), chopNl(gb, true), chopNl(gffP, true)
	}
	wrap, crlf := gIntD(vec, "wrap", 0), gBool(vec, "crlf")
	mq := qs
	if gBool(vec, "lowq") {
		// lower-case query rows in the alignment (the SAM form keeps upper case)
		mq = make([]rec, len(qs))
		for i, q := range qs {
			mq[i] = rec{q.name, strings.ToLower(q.seq)}
		}
	}
	msa := renderFasta(append([]rec{{"ref", R}}, mq...), wrap, crlf)
	if gBool(vec, "refdup") && len(qs) > 1 {
		qs := mq
		// the reference record a second time, in the middle of the alignment (two alignments to one reference, concatenated)
		all := append([]rec{{"ref", R}}, qs[:len(qs)/2]...)
		all = append(all, rec{"ref", R})
		all = append(all, qs[len(qs)/2:]...)
		msa = renderFasta(all, wrap, crlf)
	}
	refFa := renderFasta([]rec{{"ref", ref}}, 0, false)
	var srecs []samRec
	for _, q := range qs {
		if sr, ok := pairToSam(R, q.seq, q.name); ok {
			srecs = append(srecs, sr)
		}
	}
	samData := renderSam("ref", len(ref), srecs)
	obs := map[string]interface{}{"nsam": len(srecs)}
	var results []interface{}
	for _, x := range gList(vec, "runs") {
		r := gMap(x)
		anno, suffix := gb, "gb"
		switch gStr(r, "anno") {
		case "gff":
			anno, suffix = gff, "gff"
			if !strings.HasSuffix(gStr(r, "cmd"), "annoref") {
				anno = gffP
			}
		case "gffs":
			anno, suffix = sortGffRows(gff), "gff"
		}
		s, e := gIntD(r, "s", -1), gIntD(r, "e", -1)
		agg := gBool(r, "agg")
		thr := 0.0
		if agg {
			ts := strconv.FormatFloat(float64(gIntD(r, "thr", 0))/1000.0, 'f', 3, 64)
			if t9 := gIntD(r, "thr9", -1); t9 >= 0 {
				ts = nineDecimals(t9)
			}
			thr, _ = strconv.ParseFloat(ts, 64)
		}
		app := gBool(r, "append")
		t := gIntD(r, "t", 1)
		var out bytes.Buffer
		var err error
		ok := true
		switch gStr(r, "cmd") {
		case "variants":
			if gBool(r, "stdin") {
				res := cliVariants(msa, anno, suffix, s, e, agg, gIntD(r, "thr", 0), app, t, true)
				err = res.err
				out.WriteString(res.out)
				ok = !res.timeout
			} else {
				err, ok = callWithDeadline(callDeadline, func() error {
					return variants.Variants(bytes.NewReader(msa), false, "ref", bytes.NewReader(anno), suffix, &out, s, e, agg, thr, app, t)
				})
			}
		case "variants-annoref":
			// the alignment without its reference row (rows in the coordinates of the annotation's own sequence), no --reference
			err, ok = callWithDeadline(callDeadline, func() error {
				return variants.Variants(bytes.NewReader(renderFasta(mq, wrap, crlf)), false, "", bytes.NewReader(anno), suffix, &out, s, e, agg, thr, app, t)
			})
		case "samvar":
			err, ok = callWithDeadline(callDeadline, func() error {
				return sam.Variants(bytes.NewReader(samData), bytes.NewReader(refFa), true, bytes.NewReader(anno), suffix, &out, s, e, agg, thr, app, t)
			})
		case "samvar-annoref":
			err, ok = callWithDeadline(callDeadline, func() error {
				return sam.Variants(bytes.NewReader(samData), nil, false, bytes.NewReader(anno), suffix, &out, s, e, agg, thr, app, t)
			})
		case "topa-variants":
			// the FASTA form of the same SAM alignment: real toPairAlign output, one pair at a time through variants
			err, ok = topaVariants(samData, refFa, anno, suffix, s, e, app, &out)
		}
		if !ok {
			obs["timeout"] = true
			return obs
		}
		res := parseVariantsOut(out.String(), agg)
		if k := gIntD(vec, "refnamed", -1); k >= 0 {
			for _, x := range res["rows"].([]interface{}) {
				if m := x.(map[string]interface{}); m["qi"] == -1 {
					m["qi"] = k
				}
			}
		}
		res["err"] = errStr(err)
		if gBool(vec, "cli") && err == nil && !gBool(r, "stdin") && (gStr(r, "cmd") == "variants" || gStr(r, "cmd") == "samvar") {
			var args []string
			files := map[string][]byte{"anno." + suffix: anno}
			if gStr(r, "cmd") == "variants" {
				args = []string{"variants", "--msa", "@m.fa", "--reference", "ref", "-a", "@anno." + suffix, "-t", itoa(t)}
				files["m.fa"] = msa
			} else {
				args = []string{"sam", "variants", "-s", "@in.sam", "-r", "@ref.fa", "-a", "@anno." + suffix, "-t", itoa(t)}
				files["in.sam"] = samData
				files["ref.fa"] = refFa
			}
			args = flagInt(flagInt(args, "--start", s, -1), "--end", e, -1)
			args = flagBool(args, "--append-snps", app)
			if agg {
				if t9 := gIntD(r, "thr9", -1); t9 >= 0 {
					args = append(args, "--aggregate", "--threshold", nineDecimals(t9))
				} else {
					args = append(args, "--aggregate", "--threshold", thousandths(gIntD(r, "thr", 0)))
				}
			}
			for k, v := range cliRun(cliCase{files: files, args: args, inproc: out.String(), outflag: "-o"}) {
				res[k] = v
			}
		}
		results = append(results, res)
	}
	obs["runs"] = results
	return obs
}

func topaVariants(samData, refFa, anno []byte, suffix string, s, e int, app bool, out *bytes.Buffer) (error, bool) {
	work := os.Getenv("VERIF_WORK")
	if work == "" {
		work = os.TempDir()
	}
	dir, derr := os.MkdirTemp(work, "topav-")
	if derr != nil {
		die("%v", derr)
	}
	defer os.RemoveAll(dir)
	err, ok := callWithDeadline(callDeadline, func() error {
		return sam.ToPairAlign(bytes.NewReader(samData), bytes.NewReader(refFa), dir, -1, -1, -1, false, false, 1)
	})
	if !ok || err != nil {
		return err, ok
	}
	out.WriteString("query,mutations\n")
	files, _ := filepath.Glob(filepath.Join(dir, "*.fasta"))
	// keep the SAM order: q0, q1, ...
	byIdx := map[int]string{}
	maxIdx := -1
	for _, f := range files {
		i := nameIndex(strings.TrimSuffix(filepath.Base(f), ".fasta"), "q")
		byIdx[i] = f
		if i > maxIdx {
			maxIdx = i
		}
	}
	for i := 0; i <= maxIdx; i++ {
		f, present := byIdx[i]
		if !present {
			continue
		}
		b, _ := os.ReadFile(f)
		var one bytes.Buffer
		err, ok := callWithDeadline(callDeadline, func() error {
			return variants.Variants(bytes.NewReader(b), false, "ref", bytes.NewReader(anno), suffix, &one, s, e, false, 0.0, app, 1)
		})
		if !ok || err != nil {
			return err, ok
		}
		ls := lines(one.String())
		for _, l := range ls[1:] {
			out.WriteString(l + "\n")
		}
	}
	return nil, true
}

type cliRes struct {
	out     string
	err     error
	timeout bool
}

var pipedRuns int

// cliVariants runs the binary with the alignment on standard input (reference first).
func cliVariants(msa, anno []byte, suffix string, s, e int, agg bool, thr int, app bool, t int, stdin bool) cliRes {
	work := os.Getenv("VERIF_WORK")
	if work == "" {
		work = os.TempDir()
	}
	dir, derr := os.MkdirTemp(work, "cliv-")
	if derr != nil {
		die("%v", derr)
	}
	defer os.RemoveAll(dir)
	ap := filepath.Join(dir, "anno."+suffix)
	os.WriteFile(ap, anno, 0644)
	args := []string{"variants", "--reference", "ref", "-a", ap, "-t", itoa(t)}
	if s != -1 {
		args = append(args, "--start", itoa(s))
	}
	if e != -1 {
		args = append(args, "--end", itoa(e))
	}
	if agg {
		args = append(args, "--aggregate", "--threshold", strconv.FormatFloat(float64(thr)/1000.0, 'f', 3, 64))
	}
	if app {
		args = append(args, "--append-snps")
	}
	// every other piped run holds Main back in front of the select that takes the reference record (hook; the gate gives up
	// after 100 ms), so that the reader has buffered the whole alignment and is offering "done" when the select runs (F18)
	var env []string
	pipedRuns++
	if pipedRuns%2 == 0 {
		env = []string{"VHOOK_GATE=variants.Variants.first:99,0", "VHOOK_GATE_MS=100"}
	}
	r := runBinary(gofastaBin(), msa, env, callDeadline, args...)
	res := cliRes{out: r.Stdout, timeout: r.Timeout}
	if r.Exit != 0 {
		res.err = fmt.Errorf("exit %d: %s", r.Exit, firstLine(r.Stderr))
	}
	return res
}

func firstLine(s string) string {
	if i := strings.IndexByte(s, '\n'); i >= 0 {
		return s[:i]
	}
	return s
}
