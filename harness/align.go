package main

// Families that work on FASTA alignments: snps (C03, C13), closest (C06, C07).

import (
	"bytes"
	"fmt"
	"regexp"
	"strconv"
	"strings"

	"github.com/virus-evolution/gofasta/pkg/closest"
	"github.com/virus-evolution/gofasta/pkg/snps"
)

type rec struct {
	name string
	seq  string
}

// renderFasta lays records out as FASTA; wrap<=0 means one line per sequence.
// nineDecimals renders t/10^9 (0 <= t <= 10^9) with nine decimals.
func nineDecimals(t int) string {
	return fmt.Sprintf("%d.%09d", t/1000000000, t%1000000000)
}

// chopNl removes the final line terminator (files whose last line is not terminated are read like any other).
func chopNl(b []byte, on bool) []byte {
	if !on {
		return b
	}
	return bytes.TrimSuffix(bytes.TrimSuffix(b, []byte("\n")), []byte("\r"))
}

func renderFasta(recs []rec, wrap int, crlf bool) []byte {
	var b bytes.Buffer
	nl := "\n"
	if crlf {
		nl = "\r\n"
	}
	for _, r := range recs {
		b.WriteString(">" + r.name + nl)
		if wrap <= 0 {
			b.WriteString(r.seq + nl)
			continue
		}
		for i := 0; i < len(r.seq); i += wrap {
			j := i + wrap
			if j > len(r.seq) {
				j = len(r.seq)
			}
			b.WriteString(r.seq[i:j] + nl)
		}
		if len(r.seq) == 0 {
			b.WriteString(nl)
		}
	}
	return b.Bytes()
}

func seqList(l []interface{}, prefix string, lower bool) []rec {
	out := make([]rec, len(l))
	for i, x := range l {
		s := joinSyms(x.([]interface{}))
		if lower {
			s = strings.ToLower(s)
		}
		out[i] = rec{name: prefix + itoa(i+1), seq: s}
	}
	return out
}

func nameIndex(name, prefix string) int {
	if !strings.HasPrefix(name, prefix) {
		return -1
	}
	i, err := strconv.Atoi(name[len(prefix):])
	if err != nil {
		return -1
	}
	return i
}

var snpRe = regexp.MustCompile(`^(.)(\d+)(.)$`)

// parseSnp turns "A12T" into ["A",12,"T"]; anything else into ["!",-1,<text>].
func parseSnp(s string) []interface{} {
	m := snpRe.FindStringSubmatch(s)
	if m == nil {
		return []interface{}{"!", -1, s}
	}
	p, _ := strconv.Atoi(m[2])
	return []interface{}{m[1], p, m[3]}
}

func splitNonEmpty(s, sep string) []string {
	if s == "" {
		return []string{}
	}
	return strings.Split(s, sep)
}

func lines(s string) []string {
	s = strings.TrimSuffix(s, "\n")
	if s == "" {
		return []string{}
	}
	return strings.Split(s, "\n")
}

// parseDec9 parses "0.123456789" into 123456789 (value * 1e9); ok=false for NaN/Inf/other.
func parseDec9(s string) (int, bool) {
	parts := strings.Split(s, ".")
	if len(parts) != 2 || len(parts[1]) != 9 {
		return 0, false
	}
	ip, err1 := strconv.Atoi(parts[0])
	fp, err2 := strconv.Atoi(parts[1])
	if err1 != nil || err2 != nil || ip < 0 || ip > 1 {
		return 0, false
	}
	return ip*1000000000 + fp, true
}

// ---------------------------------------------------------------------------- snps

func init() {
	families["snps"] = runSnps
	families["closest"] = runClosest
}

// vec: ref [sym], qs [[sym]], hard bool, lowr bool, lowq bool, wrap int, thr int (thousandths; -1 = no aggregate run)
func runSnps(vec map[string]interface{}) map[string]interface{} {
	ref := gSeq(vec, "ref")
	if gBool(vec, "lowr") {
		ref = strings.ToLower(ref)
	}
	qs := seqList(gList(vec, "qs"), "q", gBool(vec, "lowq"))
	if pads := gList(vec, "pads"); len(pads) > 0 {
		// pads [[at, len]] in ascending order of at: len columns of A in every row after column at of the unit
		// (Distance!ThmPad: the SNPs are the unit's, shifted)
		ins := func(s string) string {
			for k := len(pads) - 1; k >= 0; k-- {
				p := intList(pads[k].([]interface{}))
				s = s[:p[0]] + strings.Repeat("A", p[1]) + s[p[0]:]
			}
			return s
		}
		ref = ins(ref)
		for i := range qs {
			qs[i].seq = ins(qs[i].seq)
		}
	}
	wrap := gIntD(vec, "wrap", 0)
	refFa := chopNl(renderFasta([]rec{{"ref", ref}}, wrap, false), gBool(vec, "nonlr"))
	qFa := chopNl(renderFasta(qs, wrap, gBool(vec, "crlf")), gBool(vec, "nonlq"))
	hard := gBool(vec, "hard")
	obs := map[string]interface{}{}

	var out bytes.Buffer
	err, ok := callWithDeadline(callDeadline, func() error {
		return snps.SNPs(bytes.NewReader(refFa), bytes.NewReader(qFa), hard, false, 0.0, &out)
	})
	if !ok {
		obs["timeout"] = true
		return obs
	}
	obs["err"] = errStr(err)
	ls := lines(out.String())
	obs["header"] = ""
	rows := []interface{}{}
	if len(ls) > 0 {
		obs["header"] = ls[0]
		for _, l := range ls[1:] {
			f := strings.SplitN(l, ",", 2)
			row := map[string]interface{}{"qi": nameIndex(f[0], "q")}
			sn := []interface{}{}
			if len(f) == 2 {
				for _, s := range splitNonEmpty(f[1], "|") {
					sn = append(sn, parseSnp(s))
				}
			}
			row["snps"] = sn
			rows = append(rows, row)
		}
	}
	obs["rows"] = rows
	if gBool(vec, "cli") && err == nil {
		args := flagBool([]string{"snps", "-r", "@ref.fa", "-q", "@q.fa"}, "--hard-gaps", hard)
		for k, v := range cliRun(cliCase{files: map[string][]byte{"ref.fa": refFa, "q.fa": qFa}, args: args, inproc: out.String(), outflag: "-o"}) {
			obs[k] = v
		}
	}

	thr := gIntD(vec, "thr", -1)
	if thr >= 0 {
		var aout bytes.Buffer
		t := float64(thr) / 1000.0
		ts := strconv.FormatFloat(t, 'f', 3, 64)
		if t9 := gIntD(vec, "thr9", -1); t9 >= 0 {
			ts = nineDecimals(t9) // a threshold written with nine decimals (e.g. a printed frequency fed back in)
		}
		t, _ = strconv.ParseFloat(ts, 64) // exactly what the CLI's flag parser would produce
		err, ok := callWithDeadline(callDeadline, func() error {
			return snps.SNPs(bytes.NewReader(refFa), bytes.NewReader(qFa), hard, true, t, &aout)
		})
		if !ok {
			obs["timeout"] = true
			return obs
		}
		obs["aerr"] = errStr(err)
		als := lines(aout.String())
		obs["aheader"] = ""
		agg := []interface{}{}
		if len(als) > 0 {
			obs["aheader"] = als[0]
			for _, l := range als[1:] {
				f := strings.Split(l, ",")
				e := map[string]interface{}{"snp": parseSnp(f[0]), "freq": -1}
				if len(f) == 2 {
					if v, ok := parseDec9(f[1]); ok {
						e["freq"] = v
					}
				}
				agg = append(agg, e)
			}
		}
		obs["agg"] = agg
		if gBool(vec, "cli") && err == nil {
			args := flagBool([]string{"snps", "-r", "@ref.fa", "-q", "@q.fa", "--aggregate", "--threshold", ts}, "--hard-gaps", hard)
			r := cliRun(cliCase{files: map[string][]byte{"ref.fa": refFa, "q.fa": qFa}, args: args, inproc: aout.String(), outflag: "-o"})
			for k, v := range r {
				obs["agg_"+k] = v
			}
		}
	}
	return obs
}

// ---------------------------------------------------------------------------- closest

// vec: queries [[sym]], targets [[sym]], measure, n int (0 = plain), d string ("" = none), table bool, threads int
func runClosest(vec map[string]interface{}) map[string]interface{} {
	qs := seqList(gList(vec, "queries"), "q", gBool(vec, "lowq"))
	ts := seqList(gList(vec, "targets"), "t", gBool(vec, "lowt"))
	if gBool(vec, "dupq") && len(qs) >= 2 {
		qs[1].name = qs[0].name // the same sample submitted twice (list forms only: one row per query, in file order)
	}
	for _, k := range intList(gList(vec, "lowts")) {
		// some targets in lower case, the others not (alignments merged from two tools)
		if k >= 0 && k < len(ts) {
			ts[k].seq = strings.ToLower(ts[k].seq)
		}
	}
	if m := intList(gList(vec, "maskt")); len(m) == 2 {
		// soft-masked targets: a lower-case stretch
		for i := range ts {
			b := []byte(ts[i].seq)
			for j := m[0]; j < m[1] && j < len(b); j++ {
				b[j] = strings.ToLower(string(b[j]))[0]
			}
			ts[i].seq = string(b)
		}
	}
	if rep := gIntD(vec, "rep", 1); rep > 1 {
		// the vector lists one unit; the alignment is the unit repeated (Distance!ThmRepeat: every count scales by rep)
		for i := range qs {
			qs[i].seq = strings.Repeat(qs[i].seq, rep)
		}
		for i := range ts {
			ts[i].seq = strings.Repeat(ts[i].seq, rep)
		}
	}
	qFa := chopNl(renderFasta(qs, gIntD(vec, "wrapq", 0), false), gBool(vec, "nonlq"))
	tFa := chopNl(renderFasta(ts, gIntD(vec, "wrapt", 0), gBool(vec, "crlft")), gBool(vec, "nonlt"))
	measure := gStr(vec, "measure")
	n := gIntD(vec, "n", 0)
	dthou := gIntD(vec, "d", -1) // max distance: for snp an integer, for raw thousandths
	table := gBool(vec, "table")
	threads := gIntD(vec, "threads", 1)
	obs := map[string]interface{}{}
	var out bytes.Buffer
	var err error
	var ok bool
	plain := n <= 0 && dthou < 0
	if plain {
		err, ok = callWithDeadline(callDeadline, func() error {
			return closest.Closest(bytes.NewReader(qFa), bytes.NewReader(tFa), measure, &out, threads)
		})
	} else {
		dist := -1.0
		if dthou >= 0 {
			if measure == "snp" {
				dist = float64(dthou)
			} else {
				s := strconv.FormatFloat(float64(dthou)/1000.0, 'f', 3, 64)
				dist, _ = strconv.ParseFloat(s, 64)
			}
		}
		err, ok = callWithDeadline(callDeadline, func() error {
			return closest.ClosestN(n, dist, bytes.NewReader(qFa), bytes.NewReader(tFa), measure, &out, table, threads)
		})
	}
	if !ok {
		obs["timeout"] = true
		return obs
	}
	obs["err"] = errStr(err)
	if gBool(vec, "cli") && err == nil {
		// the measure is matched without regard to case by the command
		mArg := measure
		if (len(qs)+len(ts)+n)%3 == 0 {
			mArg = strings.ToUpper(measure)
		}
		args := []string{"closest", "--query", "@q.fa", "--target", "@t.fa", "-m", mArg, "-t", itoa(threads)}
		args = flagInt(args, "-n", n, 0)
		if dthou >= 0 {
			if measure == "snp" {
				args = append(args, "-d", itoa(dthou))
			} else {
				args = append(args, "-d", thousandths(dthou))
			}
		}
		args = flagBool(args, "--table", table && !plain)
		for k, v := range cliRun(cliCase{files: map[string][]byte{"q.fa": qFa, "t.fa": tFa}, args: args, inproc: out.String(), outflag: "-o"}) {
			obs[k] = v
		}
	}
	ls := lines(out.String())
	obs["header"] = ""
	rows := []interface{}{}
	if len(ls) > 0 {
		obs["header"] = ls[0]
		for _, l := range ls[1:] {
			f := strings.Split(l, ",")
			row := map[string]interface{}{"qi": nameIndex(f[0], "q")}
			switch {
			case plain && len(f) == 4:
				row["ti"] = nameIndex(f[1], "t")
				putDist(row, measure, f[2])
				sn := []interface{}{}
				for _, s := range splitNonEmpty(f[3], ";") {
					// format: <pos><querysym><targetsym>
					if len(s) >= 3 {
						p, e := strconv.Atoi(s[:len(s)-2])
						if e != nil {
							p = -1
						}
						sn = append(sn, []interface{}{p, s[len(s)-2 : len(s)-1], s[len(s)-1:]})
					} else {
						sn = append(sn, []interface{}{-1, "!", s})
					}
				}
				row["snps"] = sn
			case !plain && table && len(f) == 3:
				row["ti"] = nameIndex(f[1], "t")
				putDist(row, measure, f[2])
			case !plain && !table && len(f) == 2:
				tis := []interface{}{}
				for _, s := range splitNonEmpty(f[1], ";") {
					tis = append(tis, nameIndex(s, "t"))
				}
				row["tis"] = tis
			default:
				row["bad"] = l
			}
			rows = append(rows, row)
		}
	}
	if gBool(vec, "dupq") && len(qs) >= 2 {
		// two queries carry one name: the second row under that name is the second query's (rows follow the query file)
		seen := 0
		for _, x := range rows {
			if m := x.(map[string]interface{}); m["qi"] == 1 {
				seen++
				if seen == 2 {
					m["qi"] = 2
				}
			}
		}
	}
	obs["rows"] = rows
	return obs
}

// putDist records a distance column: dist (int: snp count, or value*1e9 for raw), nan bool, dtext string
func putDist(row map[string]interface{}, measure, s string) {
	row["dtext"] = s
	row["nan"] = s == "NaN"
	row["dist"] = -1
	if measure == "snp" {
		if v, err := strconv.Atoi(s); err == nil {
			row["dist"] = v
		}
		return
	}
	if v, ok := parseDec9(s); ok {
		row["dist"] = v
	}
}
