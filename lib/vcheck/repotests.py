"""CCF-style: the repository's own functional tests are run with the hooks on (`go test -tags verif`, VHOOK_TRACE) and every
pipeline run they perform is validated as a trace against Pipeline.tla.  Their assertions only compare outputs with fixtures;
the trace specification checks the protocol at every step (each record made ready once, delivered once, in an order the
channel capacities allow, everything delivered before the entry point returns)."""
import json
import os
import subprocess

from .common import REPO, Machinery, goenv, log
from . import pipetrace

# entry point (Begin/End hook site) -> (command topology, ready sites by stage, recv site)
ENTRY = {
    "sam.ToMultiAlign": ("toma", {"sam.blockToFastaRecord": 1}, "fastaio.WriteAlignment"),
    "sam.Variants": ("samvar", {"sam.blockToPairwiseAlignment": 1, "sam.getVariantsSam": 2}, ("variants.WriteVariants", "variants.AggregateWriteVariants")),
    "variants.Variants": ("variants", {"variants.getVariants": 1}, ("variants.WriteVariants", "variants.AggregateWriteVariants")),
    "snps.SNPs": ("snps", {"snps.getSNPs": 1}, ("snps.writeOutput", "snps.aggregateWriteOutput")),
    "updown.List": ("udlist", {"updown.getLines": 1}, "updown.writeOutput"),
}
PACKAGES = ["./cmd", "./pkg/sam", "./pkg/snps", "./pkg/variants", "./pkg/updown"]
MAXN = 80


def collect(ctx):
    """Run the repository's tests with the tag on, one package at a time; returns the list of event lists (one per package)."""
    env = goenv()
    out = []
    for pkg in PACKAGES:
        tf = ctx.path("repotrace_%s.ndjson" % pkg.strip("./").replace("/", "_"))
        if os.path.exists(tf):
            os.remove(tf)
        e = dict(env)
        e["VHOOK_TRACE"] = tf
        p = subprocess.run(["go", "test", "-tags", "verif", "-vet=off", "-count=1", "-p", "1", pkg], cwd=REPO, env=e,
                           stdout=subprocess.PIPE, stderr=subprocess.STDOUT, text=True, timeout=1800)
        if p.returncode != 0:
            raise Machinery("the repository's tests fail with the verif tag on (%s):\n%s" % (pkg, p.stdout[-2000:]))
        evs = []
        if os.path.exists(tf):
            with open(tf) as fh:
                for line in fh:
                    line = line.strip()
                    if line:
                        evs.append(json.loads(line))
        out.append((pkg, evs))
    return out


def segments(evs):
    """Cut an event stream into the runs of the traced entry points (Begin ... End, not nested)."""
    runs, cur = [], None
    for e in evs:
        if e["ev"] == "begin" and e["site"] in ENTRY and cur is None:
            cur = {"site": e["site"], "threads": e["idx"], "events": []}
        elif e["ev"] == "end" and cur is not None and e["site"] == cur["site"]:
            runs.append(cur)
            cur = None
        elif cur is not None and e["ev"] in ("ready", "recv"):
            cur["events"].append(e)
    return runs


def to_rows(runs, pkg):
    """Runs -> pseudo-observations that pipetrace.trace_of understands; incomplete or large runs are skipped (counted)."""
    rows, skipped = [], 0
    for k, r in enumerate(runs):
        cmd, ready_sites, recv_site = ENTRY[r["site"]]
        evs = []
        for e in r["events"]:
            if e["ev"] == "ready" and e["site"] in ready_sites:
                evs.append({"ev": "ready", "stage": ready_sites[e["site"]], "idx": e["idx"]})
            elif e["ev"] == "recv" and (e["site"] == recv_site or e["site"] in recv_site):
                evs.append({"ev": "recv", "stage": 0, "idx": e["idx"]})
        idxs = [e["idx"] for e in evs]
        n = max(idxs) + 1 if idxs else 0
        delivered = {e["idx"] for e in evs if e["ev"] == "recv"}
        if n == 0 or n > MAXN or delivered != set(range(n)):
            skipped += 1
            continue
        rows.append({"id": "%s#%d:%s" % (pkg, k, r["site"]),
                     "vec": {"cmd": cmd, "N": n, "T": max(1, r["threads"]), "mode": "plain"},
                     "obs": {"events": evs, "iserr": False, "order": [], "unknown_return": True}})
    return rows, skipped


def validate(ctx):
    total_runs, rows, skipped = 0, [], 0
    for pkg, evs in collect(ctx):
        runs = segments(evs)
        total_runs += len(runs)
        r, s = to_rows(runs, pkg)
        rows += r
        skipped += s
    if not rows:
        raise Machinery("no pipeline run of the repository's tests could be traced (hooks missing?)")
    rejected = pipetrace.validate_traces(ctx, rows, tag="repotests")
    ctx.extra["repo_test_pipeline_runs"] = total_runs
    ctx.extra["repo_test_traces_validated"] = len(rows)
    ctx.extra["repo_test_runs_skipped_large_or_incomplete"] = skipped
    log("repository tests: %d pipeline runs, %d traces validated, %d skipped, %d rejected" % (total_runs, len(rows), skipped, len(rejected)))
    return rejected
