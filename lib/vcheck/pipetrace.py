"""Turns observations of the "pipe" harness family into traces for TracePipeline.tla and validates them."""
import json
import os
import re

from .common import Machinery, log, write_ndjson

NCPU = os.cpu_count() or 16

# command topologies as coded (DESIGN.md Appendix C); 'T' / 'N' are substituted per run
TOPO = {
    "toma": dict(Stages=1, CapIn="T", CapOut=0, Reorder=True, Header=True, HdrWrites=0, WritesPer=2, pool="T"),
    "tomapad": dict(Stages=1, CapIn="T", CapOut=0, Reorder=True, Header=True, HdrWrites=0, WritesPer=2, pool="T"),
    "tomawrap": dict(Stages=1, CapIn="T", CapOut=0, Reorder=True, Header=True, HdrWrites=0, WritesPer=5, pool="T"),
    "samvar": dict(Stages=2, CapIn="T", CapOut=0, Reorder=True, Header=True, HdrWrites=1, WritesPer=2, pool="T"),
    "variants": dict(Stages=1, CapIn="N", CapOut="N", Reorder=True, Header=False, HdrWrites=1, WritesPer=2, pool="T"),
    "variantsref": dict(Stages=1, CapIn="N", CapOut="N", Reorder=True, Header=False, HdrWrites=1, WritesPer=2, pool="T", skip=[1]),
    "snps": dict(Stages=1, CapIn=0, CapOut="N", Reorder=True, Header=False, HdrWrites=1, WritesPer=1, pool="P"),
    "udlist": dict(Stages=1, CapIn="N", CapOut="N", Reorder=True, Header=False, HdrWrites=1, WritesPer=1, pool="P"),
}


def cfg_of(vec, hdrsel=True):
    c = dict(TOPO[vec["cmd"]])
    skip = c.pop("skip", [])
    n = vec["N"]
    if vec["cmd"] == "variantsref":
        n = n + 1                      # the reference record travels through the pipeline too
    if n <= 1:
        skip = []
    t = vec.get("T", 1) if c.pop("pool") == "T" else NCPU
    t = max(1, min(t, max(n, 1)))
    for k, v in list(c.items()):
        if v == "T":
            c[k] = t
        elif v == "N":
            c[k] = max(n, 1)
    c.update(name=vec["cmd"], N=n, T=t, HdrSel=hdrsel, Skip=skip)
    f = {"kind": "none", "at": 0}
    if vec.get("mode") == "wfail" or vec.get("failk", 0) > 0:     # a write fault, possibly under an imposed delivery order (mode gate)
        f = {"kind": "wr", "at": vec["failk"]}
    elif vec.get("mode") == "badrec" or vec.get("badat", -1) >= 0:   # a bad record, possibly under an imposed delivery order of the ones before it
        f = {"kind": "rd", "at": vec["badat"]}
    c["fault"] = f
    return c


def trace_of(row):
    v, b = row["vec"], row["obs"]
    lines = [{"ev": "begin", "cfg": cfg_of(v), "id": row["id"]}]
    lines += [{"ev": e["ev"], "stage": e["stage"], "idx": e["idx"]} for e in b["events"]]
    ret = {"ev": "ret", "err": b["iserr"], "order": b["order"]}
    if b.get("unknown_return"):
        ret["unknown"] = True
    lines.append(ret)
    return lines


FANOUT = ("closest", "closestn", "closestd", "closestntable", "toprank", "topranktable")


def fanout_trace_of(row):
    """Trace of a fan-out command (Fanout.tla: Q per-query goroutines report to Main, which then writes 1 + Q times)."""
    v, b = row["vec"], row["obs"]
    f = {"kind": "none", "at": 0}
    if v.get("failk", 0) > 0:
        f = {"kind": "wr", "at": v["failk"]}
    lines = [{"ev": "begin", "fault": f, "id": row["id"]}]
    lines += [{"ev": e["ev"], "idx": e["idx"]} for e in b["events"]]
    lines.append({"ev": "ret", "err": b["iserr"], "nw": b["nwrites"]})
    return lines


def validate_fanout_traces(ctx, rows, tag="ftrace", timeout=1800):
    """Fan-out runs with 3 queries and 3 targets; grouped by the number of Write calls per query row (WPR is a constant
    of Fanout.tla): 1 + 3 * WPR calls in all."""
    rejected = []
    groups = {}
    for r in rows:
        w = r["obs"].get("nwrites_ref", 0) - 1
        if r["vec"]["N"] == 3 and w % 3 == 0 and w // 3 in (1, 3, 5):
            groups.setdefault(w // 3, []).append(r)
    for wpr, rs in sorted(groups.items()):
        rejected += validate_traces(ctx, rs, tag="%s_w%d" % (tag, wpr), timeout=timeout, module="TraceFanout", cfg="TraceFanout_w%d.cfg" % wpr,
                                    builder=fanout_trace_of)
    ctx.extra["fanout_traces"] = ctx.extra.get("fanout_traces", 0) + sum(len(x) for x in groups.values())
    return rejected


def validate_traces(ctx, rows, tag="trace", timeout=1800, module="TracePipeline", cfg="TracePipeline.cfg", builder=None):
    """Returns the list of rejected rows [(row, line_in_trace)].  All traces go through one TLC run; when the
    high-water mark stops short, the trace containing that line is rejected, removed, and the rest re-run."""
    traces = [(r, (builder or trace_of)(r)) for r in rows]
    rejected = []
    total_states = 0
    rounds = 0
    while traces:
        rounds += 1
        path = ctx.path("%s_%d.ndjson" % (tag, rounds))
        flat, starts = [], []
        for r, t in traces:
            starts.append(len(flat) + 1)
            flat += t
        write_ndjson(path, flat)
        res = ctx.tlc(module, cfg, workers=1, env={"VERIF_OBS": path}, deque=True,
                      expect_violation=True, tag="%s_%d" % (tag, rounds), count=False, timeout=timeout)
        m = re.findall(r'<<"HWM", (\d+), (\d+)>>', res["out"])
        bad_inv = [x for x in res["violations"] if x not in ("<postcondition>",)]
        if not m:
            raise Machinery("trace validation produced no high-water mark (violations=%s):\n%s" % (bad_inv, res["out"][-1500:]))
        hwm, n = int(m[-1][0]), int(m[-1][1])
        total_states += res["distinct"]
        if bad_inv:
            # an invariant of the specification failed in a state of a behaviour matching the trace
            k = max(i for i, s in enumerate(starts) if s <= min(hwm, n))
            rejected.append((traces[k][0], "invariant " + ",".join(bad_inv)))
            traces.pop(k)
            continue
        if hwm >= n + 1:
            break
        k = max(i for i, s in enumerate(starts) if s <= hwm)
        rejected.append((traces[k][0], "line %d of its trace: %s" % (hwm - starts[k] + 1, json.dumps(flat[hwm - 1]))))
        traces.pop(k)
        if rounds > 60:
            raise Machinery("too many rejected traces (%d); giving up" % len(rejected))
    ctx.extra["trace_states"] = ctx.extra.get("trace_states", 0) + total_states
    ctx.validated += len(rows)
    log("trace validation: %d traces, %d rejected, %d states" % (len(rows), len(rejected), total_states))
    return rejected
