"""Shared plumbing for /verif/bin/check.

Stages of one check (DESIGN.md Appendix B):
  mc        TLC explores the specification (exhaustive, small constants)
  gen       TLC emits abstract input vectors (ndjson, one JSON string per line)
  build     gofasta + vharness are rebuilt from /repo's working tree, -tags verif
  run       vharness renders vectors, drives the real code, records observations
  validate  TLC reads the observations back and judges each one against the spec
  report    failures vs known_findings.json -> stdout lines, evidence, replay files

Exit codes: 0 held / 1 VIOLATION / 2 machinery failure (never with a VIOLATION line).
"""
import hashlib
import json
import os
import re
import shutil
import subprocess
import sys
import time

ROOT = os.path.dirname(os.path.dirname(os.path.dirname(os.path.abspath(__file__))))
REPO = os.environ.get("VERIF_REPO", "/repo")
SPEC = os.path.join(ROOT, "spec")
HARNESS = os.path.join(ROOT, "harness")
EVID = os.path.join(ROOT, "evidence")
REPLAY = os.path.join(EVID, "replay")
KNOWN = os.path.join(ROOT, "known_findings.json")
JAR_CP = "/opt/veriftools/tla/tla2tools.jar:/opt/veriftools/tla/CommunityModules-deps.jar"


class Machinery(Exception):
    """Infrastructure failure: exit 2, never a verdict."""


def log(*a):
    print("[check]", *a, file=sys.stderr, flush=True)


def goenv():
    e = dict(os.environ)
    # CGO_ENABLED is left at the toolchain default (1 here): that is how a user's `go build` links gofasta, and with
    # cgo linked in the Go runtime's "all goroutines are asleep" detector is off, so a protocol deadlock is a real hang
    e.update(GOFLAGS="-mod=mod", GOPROXY="off", GOSUMDB="off", GOTOOLCHAIN="local")
    return e


class Ctx:
    """Everything one invocation of a check needs."""

    def __init__(self, pid, tier, seed):
        self.pid = pid
        self.tier = tier
        self.seed = seed
        self.t0 = time.time()
        self.work = os.path.join(ROOT, ".work", pid)
        if os.path.isdir(self.work):
            shutil.rmtree(self.work, ignore_errors=True)
        os.makedirs(self.work)
        self.bindir = os.path.join(self.work, "bin")
        os.makedirs(self.bindir)
        self.specdir = os.path.join(self.work, "spec")
        shutil.copytree(SPEC, self.specdir)
        self.gofasta = os.path.join(self.bindir, "gofasta")
        self.vharness = os.path.join(self.bindir, "vharness")
        # accounting
        self.states = 0
        self.transitions = 0
        self.mc_runs = []
        self.validated = 0
        self.evaluations = 0
        self.nontrivial = set()
        self.samples = []
        self.failures = []      # dicts: {family, clause, signature, id, vec, observed, expected}
        self.assumptions = []
        self.rule = ""
        self.exhaustive = False
        self.extra = {}
        self.notes = []

    @property
    def quick(self):
        return self.tier == "quick"

    def path(self, name):
        return os.path.join(self.work, name)

    # ---------------------------------------------------------------- build
    def build(self, race=False, harness=True, gofasta=True):
        env = goenv()
        if gofasta:
            cmd = ["go", "build", "-tags", "verif", "-o", self.gofasta, "."]
            self._run_build(cmd, REPO, env)
            self.gofasta_built = True
            if race:
                e2 = dict(env)
                e2["CGO_ENABLED"] = "1"
                cmd = ["go", "build", "-race", "-tags", "verif", "-o", self.gofasta + "-race", "."]
                self._run_build(cmd, REPO, e2)
        if harness:
            # build from a scratch copy whose go.mod points at the repository under test (VERIF_REPO, default /repo)
            hdir = os.path.join(self.work, "harness-src")
            if os.path.isdir(hdir):
                shutil.rmtree(hdir)
            shutil.copytree(HARNESS, hdir)
            gm = os.path.join(hdir, "go.mod")
            txt = open(gm).read().replace("=> /repo", "=> " + REPO)
            open(gm, "w").write(txt)
            shutil.copyfile(os.path.join(REPO, "go.sum"), os.path.join(hdir, "go.sum"))
            self.harness_src = hdir
            cmd = ["go", "build", "-tags", "verif", "-o", self.vharness, "."]
            self._run_build(cmd, hdir, env)

    def _run_build(self, cmd, cwd, env):
        t = time.time()
        p = subprocess.run(cmd, cwd=cwd, env=env, stdout=subprocess.PIPE, stderr=subprocess.STDOUT, text=True)
        if p.returncode != 0:
            raise Machinery("build failed: %s\n%s" % (" ".join(cmd), p.stdout[-4000:]))
        log("built", cmd[-3], "in %.1fs" % (time.time() - t))

    # ---------------------------------------------------------------- TLC
    def tlc(self, module, cfg, workers=1, env=None, simulate=None, depth=None, timeout=900,
            expect_violation=False, tag=None, count=True, deque=False, extra=None, heap=None):
        """Run TLC on spec/<module>.tla with spec/<cfg>.  Returns dict."""
        tag = tag or cfg.replace(".cfg", "")
        meta = self.path("meta_" + tag)
        shutil.rmtree(meta, ignore_errors=True)
        java = ["java", "-XX:+UseParallelGC", "-Xss256m"]
        if heap:
            java.append("-Xmx" + heap)
        if deque:
            java.append("-Dtlc2.tool.queue.IStateQueue=StateDeque")
        cmd = java + ["-cp", JAR_CP, "tlc2.TLC", "-workers", str(workers), "-metadir", meta,
                      "-config", cfg]
        if simulate:
            cmd += ["-simulate", simulate]
            if depth:
                cmd += ["-depth", str(depth)]
            cmd += ["-seed", str(self.seed)]
        if extra:
            cmd += extra
        cmd.append(module + ".tla")
        e = dict(os.environ)
        if env:
            e.update({k: str(v) for k, v in env.items()})
        t = time.time()
        try:
            p = subprocess.run(cmd, cwd=self.specdir, env=e, stdout=subprocess.PIPE,
                               stderr=subprocess.STDOUT, text=True, timeout=timeout)
        except subprocess.TimeoutExpired:
            subprocess.run(["pkill", "-f", meta], check=False)
            raise Machinery("TLC timeout after %ds: %s %s" % (timeout, module, cfg))
        out = p.stdout
        with open(self.path("tlc_%s.log" % tag), "w") as f:
            f.write(out)
        shutil.rmtree(meta, ignore_errors=True)
        res = {"out": out, "rc": p.returncode, "wall": time.time() - t}
        m = re.findall(r"(\d+) states generated, (\d+) distinct states found", out)
        if m:
            res["generated"], res["distinct"] = int(m[-1][0]), int(m[-1][1])
        else:
            res["generated"], res["distinct"] = 0, 0
        res["violated"] = re.findall(r"Error: (?:Invariant|Action property|Temporal properties|Postcondition) ?(\S*) ?(?:is|was|were)? ?violated", out)
        inv = re.findall(r"Invariant (\S+) is violated", out)
        inv += re.findall(r"Action property (\S+) is violated", out)
        if re.search(r"Temporal propert(y|ies) .*violated", out):
            inv.append("<temporal>")
        if "Deadlock reached" in out:
            inv.append("<deadlock>")
        if re.search(r"The postcondition .* false|Postcondition.*violated|postcondition.*violated", out, re.I):
            inv.append("<postcondition>")
        res["violations"] = inv
        ok = ("Model checking completed. No error has been found." in out) or \
             (simulate and p.returncode == 0 and "Error:" not in out) or \
             ("Finished in" in out and "Error:" not in out and p.returncode == 0)
        res["ok"] = bool(ok)
        log("tlc %s/%s: %s generated=%d distinct=%d %.1fs%s" % (
            module, cfg, "ok" if ok else "ERR", res["generated"], res["distinct"], res["wall"],
            (" violations=%s" % sorted(set(inv))) if inv else ""))
        if count and ok:
            self.states += res["distinct"]
            self.transitions += res["generated"]
            self.mc_runs.append({"module": module, "cfg": cfg, "states": res["distinct"],
                                 "transitions": res["generated"], "wall_s": round(res["wall"], 1)})
        if not ok and not expect_violation:
            raise Machinery("TLC failed on %s %s (rc=%d):\n%s" % (module, cfg, p.returncode, tail(out)))
        return res

    # ---------------------------------------------------------------- TLAPS
    def tlaps(self, module, timeout=900):
        """Check the proofs of spec/<module>.tla with tlapm; returns (obligations, proved)."""
        d = self.path("tlaps_" + module)
        os.makedirs(d, exist_ok=True)
        shutil.copyfile(os.path.join(self.specdir, module + ".tla"), os.path.join(d, module + ".tla"))
        try:
            p = subprocess.run(["tlapm", "--threads", "16", "--cleanfp", module + ".tla"], cwd=d, stdout=subprocess.PIPE,
                               stderr=subprocess.STDOUT, text=True, timeout=timeout)
        except subprocess.TimeoutExpired:
            raise Machinery("tlapm timeout on %s" % module)
        m = re.search(r"All (\d+) obligations? proved", p.stdout)
        if not m:
            raise Machinery("tlapm did not prove %s:\n%s" % (module, tail(p.stdout)))
        n = int(m.group(1))
        log("tlapm %s: all %d obligations proved" % (module, n))
        self.extra["tlaps_" + module] = {"obligations": n, "discharged": n, "checker_cmd": "tlapm --threads 16 --cleanfp %s.tla" % module}
        return n, n

    def apalache(self, module, init, inv, length, timeout=900, expect_error=False):
        """apalache-mc check --init=<init> --inv=<inv> --length=<length> spec/<module>.tla (symbolic, unbounded integers)."""
        d = self.path("apalache_%s_%s_%d" % (module, init, length))
        os.makedirs(d, exist_ok=True)
        shutil.copyfile(os.path.join(self.specdir, module + ".tla"), os.path.join(d, module + ".tla"))
        cmd = ["apalache-mc", "check", "--init=" + init, "--inv=" + inv, "--length=%d" % length, "--out-dir=" + os.path.join(d, "out"), module + ".tla"]
        t = time.time()
        try:
            p = subprocess.run(cmd, cwd=d, stdout=subprocess.PIPE, stderr=subprocess.STDOUT, text=True, timeout=timeout)
        except subprocess.TimeoutExpired:
            raise Machinery("apalache timeout on %s (%s, length %d)" % (module, init, length))
        ok = "The outcome is: NoError" in p.stdout
        err = "The outcome is: Error" in p.stdout
        if not ok and not err:
            raise Machinery("apalache gave no verdict on %s:\n%s" % (module, tail(p.stdout)))
        log("apalache %s init=%s inv=%s length=%d: %s %.1fs" % (module, init, inv, length, "NoError" if ok else "Error", time.time() - t))
        if ok == expect_error:
            raise Machinery("apalache: %s %s/%s length %d: expected %s" % (module, init, inv, length, "a counterexample" if expect_error else "no error"))
        self.extra.setdefault("apalache", []).append({"module": module, "init": init, "inv": inv, "length": length, "outcome": "NoError" if ok else "Error",
                                                      "checker_cmd": " ".join(cmd[:5]) + " " + module + ".tla"})
        shutil.rmtree(os.path.join(d, "out"), ignore_errors=True)
        return ok

    # ---------------------------------------------------------------- harness
    def harness(self, args, timeout=1800, env=None, check=True):
        e = goenv()
        e["VERIF_GOFASTA"] = self.gofasta
        e["VERIF_WORK"] = self.work
        e["VERIF_SEED"] = str(self.seed)
        if env:
            e.update({k: str(v) for k, v in env.items()})
        t = time.time()
        try:
            p = subprocess.run([self.vharness] + [str(a) for a in args], cwd=self.work, env=e,
                               stdout=subprocess.PIPE, stderr=subprocess.PIPE, text=True, timeout=timeout)
        except subprocess.TimeoutExpired:
            raise Machinery("harness timeout: %s" % (args,))
        log("harness %s rc=%d %.1fs" % (" ".join(str(a) for a in args[:4]), p.returncode, time.time() - t))
        if check and p.returncode != 0:
            raise Machinery("harness failed (%s): rc=%d\n%s" % (args, p.returncode, tail(p.stderr)))
        return p

    # ---------------------------------------------------------------- validate
    def validate(self, module, cfg, obsfile, env=None, timeout=1800, tag=None, heap=None, parts=None):
        """Run an Obs_* validation.  Returns list of failure dicts (parsed from the fail file).
        The observation file is cut into `parts` pieces that are validated by concurrent TLC processes (each
        observation is judged on its own, so the split cannot change a verdict); line numbers are mapped back."""
        n = count_lines(obsfile)
        if n == 0:
            raise Machinery("no observations in %s (dead driver)" % obsfile)
        tag = tag or cfg.replace(".cfg", "")
        if parts is None:
            parts = max(1, min(8, n // 150))
            # a part is read into the JVM whole (ndJsonDeserialize): keep it under ~15 MB / 60,000 observations; 8 run at a time
            parts = max(parts, (os.path.getsize(obsfile) + 15000000 - 1) // 15000000, (n + 59999) // 60000)
        if parts == 1:
            return self._validate_one(module, cfg, obsfile, n, env, timeout, tag, heap)
        import concurrent.futures
        with open(obsfile) as fh:
            lines = [l for l in fh if l.strip()]
        # cut by size as well as by count (long observations cluster at the end of some files)
        per = (len(lines) + parts - 1) // parts
        budget = max(1, sum(len(l) for l in lines) // parts) + 1
        chunks = []
        start = 0
        while start < len(lines):
            end, size = start, 0
            while end < len(lines) and end - start < per and (size + len(lines[end]) <= budget or end == start):
                size += len(lines[end])
                end += 1
            k = len(chunks)
            pth = "%s.part%d" % (obsfile, k)
            with open(pth, "w") as fh:
                fh.writelines(lines[start:end])
            chunks.append((k, pth, end - start, start))
            start = end
        fails, stats = [], []

        def work(c):
            k, pth, cnt, off = c
            f, st = self._validate_one(module, cfg, pth, cnt, env, timeout, "%s_p%d" % (tag, k), heap or "3g", quiet=True)
            for x in f:
                x["line"] += off
            for x in st:
                if "line" in x:
                    x["line"] += off
            return f, st

        t = time.time()
        with concurrent.futures.ThreadPoolExecutor(max_workers=min(8, len(chunks))) as ex:
            for f, st in ex.map(work, chunks):
                fails += f
                stats += st
        for _, pth, _, _ in chunks:
            os.remove(pth)
        log("tlc %s/%s: validated %d observations in %d parallel parts, %.1fs" % (module, cfg, n, len(chunks), time.time() - t))
        return fails, stats

    def _validate_one(self, module, cfg, obsfile, n, env, timeout, tag, heap, quiet=False):
        failfile = self.path("fail_%s.ndjson" % tag)
        statfile = self.path("stat_%s.ndjson" % tag)
        for f in (failfile, statfile):
            if os.path.exists(f):
                os.remove(f)
        e = {"VERIF_OBS": obsfile, "VERIF_FAIL": failfile, "VERIF_STAT": statfile}
        if env:
            e.update(env)
        res = self.tlc(module, cfg, workers=1, env=e, timeout=timeout, tag=tag, heap=heap, count=False)
        self.extra["validator_states"] = self.extra.get("validator_states", 0) + res["distinct"]
        if res["distinct"] != n + 1:
            raise Machinery("validator consumed %d of %d observations (%s)" % (res["distinct"] - 1, n, cfg))
        self.validated += n
        fails = read_ndjson2(failfile) if os.path.exists(failfile) else []
        stats = read_ndjson2(statfile) if os.path.exists(statfile) else []
        return fails, stats

    # ---------------------------------------------------------------- report
    def add_failure(self, clause, signature, vec_id, detail):
        self.failures.append({"clause": clause, "signature": signature, "id": vec_id, "detail": detail})

    def finish(self, level="model_checking"):
        known = load_known()
        mine = [k for k in known.get("findings", []) if k["property"] == self.pid]
        viol = []
        known_hits = {}
        for f in self.failures:
            hit = None
            for k in mine:
                if match_known(k, f):
                    hit = k
                    break
            if hit is not None:
                known_hits.setdefault(hit["id"], [hit, 0])[1] += 1
            else:
                viol.append(f)
        for kid, (k, n) in sorted(known_hits.items()):
            print("KNOWN-FINDING: property=%s %s [%s; %d failing case(s) this run]" % (self.pid, k["what"], kid, n))
        replay_dir = REPLAY if not os.environ.get("VERIF_EVIDENCE_SKIP") else os.path.join(ROOT, ".work", "replay-scratch")
        os.makedirs(replay_dir, exist_ok=True)
        # stale replay files of this property
        for fn in os.listdir(replay_dir):
            if fn.startswith(self.pid + "-"):
                os.remove(os.path.join(replay_dir, fn))
        shown = 0
        by_sig = {}
        for f in viol:
            by_sig.setdefault((f["clause"], f["signature"]), []).append(f)
        for (clause, sig), fs in sorted(by_sig.items(), key=lambda kv: str(kv[0])):
            f = fs[0]
            shown += 1
            path = os.path.join(replay_dir, "%s-%d.json" % (self.pid, shown))
            with open(path, "w") as fh:
                json.dump({"property": self.pid, "clause": clause, "signature": sig, "count": len(fs),
                           "case": f}, fh, indent=1, default=str)
            if self.pid.startswith("X"):
                print("EXTENSION-VIOLATION spec=%s replay=%s clause=%s signature=%s cases=%d" % (self.pid, path, clause, sig, len(fs)))
                continue
            print("VIOLATION property=%s replay=%s clause=%s signature=%s cases=%d" % (
                self.pid, path, clause, sig, len(fs)))
        cov = {
            "states": int(self.states),
            "transitions": int(self.transitions),
            "traces_validated_against_impl": int(self.validated),
            "samples": self.samples[:6] if self.samples else ["(none)"],
            "evaluations": int(self.evaluations or self.validated),
            "distinct_nontrivial": len(self.nontrivial),
            "rule": self.rule,
            "exhaustive": bool(self.exhaustive),
            "mc_runs": self.mc_runs,
            "known_findings_hit": {k: v[1] for k, v in known_hits.items()},
        }
        cov.update(self.extra)
        ev = {
            "property_id": self.pid,
            "tier": self.tier,
            "seed": int(self.seed),
            "level": level,
            "coverage": cov,
            "assumptions": self.assumptions,
            "wall_s": round(time.time() - self.t0, 1),
            "violations": len(viol),
        }
        evdir = EVID if not self.pid.startswith("X") else os.path.join(ROOT, "extras", "evidence")
        if os.environ.get("VERIF_EVIDENCE_SKIP"):        # runs against a deliberately broken tree (bin/seedtest)
            evdir = os.path.join(ROOT, ".work", "evidence-scratch")
        os.makedirs(evdir, exist_ok=True)
        with open(os.path.join(evdir, self.pid + ".json"), "w") as fh:
            json.dump(ev, fh, indent=1, default=str)
        if not os.environ.get("VERIF_KEEP"):
            shutil.rmtree(self.work, ignore_errors=True)
        log("%s %s: states=%d validated=%d nontrivial=%d failures=%d known=%d violations=%d wall=%.0fs" % (
            self.pid, self.tier, self.states, self.validated, len(self.nontrivial), len(self.failures),
            sum(v[1] for v in known_hits.values()), len(viol), time.time() - self.t0))
        return 1 if viol else 0


def match_known(k, f):
    """A known finding suppresses a failure iff clause matches and the signature matches
    (exact string, or regular expression when the entry has "signature_re")."""
    if k.get("clause") and k["clause"] != f["clause"]:
        return False
    if "signature" in k:
        return k["signature"] == f["signature"]
    if "signature_re" in k:
        return re.fullmatch(k["signature_re"], str(f["signature"])) is not None
    return False


def load_known():
    if not os.path.exists(KNOWN):
        return {"findings": [], "fixed": []}
    with open(KNOWN) as fh:
        return json.load(fh)


def tail(s, n=3000):
    return s[-n:]


def count_lines(path):
    if not os.path.exists(path):
        return 0
    n = 0
    with open(path, "rb") as fh:
        for line in fh:
            if line.strip():
                n += 1
    return n


def read_ndjson(path):
    out = []
    with open(path) as fh:
        for line in fh:
            line = line.strip()
            if line:
                out.append(json.loads(line))
    return out


def read_ndjson2(path):
    """Lines written by TLC's CSVWrite("%1$s", <<ToJson(v)>>, f): a JSON string holding JSON."""
    out = []
    with open(path) as fh:
        for line in fh:
            line = line.strip()
            if not line:
                continue
            v = json.loads(line)
            if isinstance(v, str):
                v = json.loads(v)
            out.append(v)
    return out


def write_ndjson(path, rows):
    with open(path, "w") as fh:
        for r in rows:
            fh.write(json.dumps(r, separators=(",", ":")) + "\n")


def canon(v):
    return hashlib.sha1(json.dumps(v, sort_keys=True, separators=(",", ":")).encode()).hexdigest()


def seed_from_env():
    try:
        return int(os.environ.get("VERIF_SEED", "1"))
    except ValueError:
        return 1
