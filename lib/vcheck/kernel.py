"""The Gen -> run -> Obs loop shared by the kernel properties."""
import json
import os

from .common import Machinery, canon, count_lines, log, read_ndjson, read_ndjson2, write_ndjson


def tlc_gen(ctx, module, cfg, tag=None, env=None, simulate=None, depth=None, timeout=900, workers=1):
    """Run a Gen_* config; returns the list of emitted vectors (TLC is the enumerator)."""
    tag = tag or module
    vecfile = ctx.path("vec_%s.ndjson" % tag)
    if os.path.exists(vecfile):
        os.remove(vecfile)
    e = {"VERIF_VEC": vecfile, "VERIF_TIER": ctx.tier, "VERIF_SEED": str(ctx.seed)}
    if env:
        e.update(env)
    ctx.tlc(module, cfg, workers=workers, env=e, tag="gen_" + tag, simulate=simulate, depth=depth, timeout=timeout)
    if not os.path.exists(vecfile):
        raise Machinery("generator %s emitted nothing" % module)
    vecs = read_ndjson2(vecfile)
    # de-duplicate by id keeping order (TLC may evaluate an invariant more than once per state)
    seen, out = set(), []
    for v in vecs:
        k = canon(v)
        if k in seen:
            continue
        seen.add(k)
        out.append(v)
    log("gen %s: %d vectors" % (module, len(out)))
    return out


def rand_vectors(ctx, family, n, tag=None, env=None):
    if n <= 0:
        return []
    out = ctx.path("rand_%s.ndjson" % (tag or family))
    ctx.harness(["gen-rand", family, n, out], env=env)
    return read_ndjson(out)


# Families whose vectors go through the exported entry points: a sample of them is also given to the gofasta binary
# with the equivalent flags (harness/cliwire.go), so that the wiring in cmd/ is under the same properties.
CLI_FAMILIES = {"snps": 60, "closest": 60, "sam": 25, "variants": 40, "updown": 40}


def option_signature(v):
    """The option-like part of a vector: its scalar fields, and those of its `opts` (sequences, runs and ids left out)."""
    items = [(k, x) for k, x in v.items() if k not in ("id", "cli") and isinstance(x, (int, str, bool))]
    if isinstance(v.get("opts"), dict):
        items += [("opts." + k, x) for k, x in v["opts"].items() if isinstance(x, (int, str, bool))]
    if isinstance(v.get("recs"), list):
        # SAM blocks: the shapes of the CIGARs (first / last operator of every record, the operators that occur)
        shapes = sorted({(r["cig"][0][0], r["cig"][-1][0]) for r in v["recs"] if r.get("cig")})
        ops = sorted({o for r in v["recs"] for o, _ in r.get("cig", [])})
        items += [("cigar.shapes", shapes), ("cigar.ops", ops), ("nrecs", len(v["recs"]))]
    if isinstance(v.get("R"), list) and v["R"]:
        items += [("R.leading-gap", v["R"][0] == "-"), ("R.trailing-gap", v["R"][-1] == "-")]
    if isinstance(v.get("feats"), list):
        items += [("feats", [(f.get("strand"), len(f.get("segs", [])), f.get("cstart"), f.get("named")) for f in v["feats"]])]
    return tuple(sorted((k, str(x)) for k, x in items))


def flag_cli(ctx, family, vecs):
    n = CLI_FAMILIES.get(family, 0) * (1 if ctx.quick else 10)
    if n == 0 or not vecs:
        return 0
    if not getattr(ctx, "gofasta_built", False):
        ctx.build(harness=False, gofasta=True)
    # a stride through the vectors, plus one vector for every distinct combination of options (up to 3n of them): a flag
    # value that cmd/ treats specially (-d 0, --threshold 1, -n larger than the file ...) must not depend on the stride
    stride = max(1, len(vecs) // n)
    chosen = {i for i in range(len(vecs)) if (i + ctx.seed) % stride == 0}
    seen = set()
    order = list(range(len(vecs)))
    order = order[ctx.seed % len(order):] + order[:ctx.seed % len(order)]
    for i in order:
        sig = option_signature(vecs[i])
        if sig not in seen and len(seen) < 3 * n:
            seen.add(sig)
            chosen.add(i)
    for i in chosen:
        vecs[i]["cli"] = True
    ctx.extra["cli_wiring_vectors"] = ctx.extra.get("cli_wiring_vectors", 0) + len(chosen)
    return len(chosen)


def run_vectors(ctx, family, vecs, tag=None, jobs=None, env=None, timeout=3000):
    tag = tag or family
    flag_cli(ctx, family, vecs)
    vin = ctx.path("in_%s.ndjson" % tag)
    vout = ctx.path("obs_%s.ndjson" % tag)
    write_ndjson(vin, vecs)
    args = ["run", family, vin, vout]
    if jobs:
        args += ["-j", jobs]
    ctx.harness(args, env=env, timeout=timeout)
    n = count_lines(vout)
    if n != len(vecs):
        raise Machinery("harness returned %d observations for %d vectors" % (n, len(vecs)))
    return vout


def validate_obs(ctx, module, cfg, obsfile, clause_sig=None, tag=None, env=None, timeout=3000):
    """Validate and register failures.  Returns (rows, fails, stats)."""
    fails, stats = ctx.validate(module, cfg, obsfile, tag=tag, env=env, timeout=timeout)
    rows = read_ndjson(obsfile)
    for f in fails:
        row = rows[f["line"] - 1]
        ctx.add_failure(f["clause"], f.get("signature", f["clause"]), f["id"],
                        {"vec": row.get("vec"), "observed": row.get("obs"), "expected": f.get("expected"),
                         "family": tag or module})
    return rows, fails, stats


def account(ctx, rows, nontrivial, samples=2):
    """evaluations / distinct_nontrivial / samples from the observations actually validated."""
    ctx.evaluations += len(rows)
    for r in rows:
        if nontrivial(r):
            ctx.nontrivial.add(canon(r.get("vec", r)))
    step = max(1, len(rows) // max(1, samples))
    for r in rows[::step][:samples]:
        ctx.samples.append(trim(r))


def trim(v, limit=1500):
    s = json.dumps(v, separators=(",", ":"))
    if len(s) <= limit:
        return v
    return {"truncated": s[:limit] + "..."}


def selftest_corrupt(ctx, module, cfg, obsfile, mutators, env=None):
    """Binding demonstration: each mutator corrupts one field of one observation; the validator
    must reject exactly the corrupted line."""
    rows = read_ndjson(obsfile)
    ok = True
    for name, mut in mutators:
        import copy
        rows2 = copy.deepcopy(rows)
        line = mut(rows2)
        if line is None:
            log("selftest %s: no applicable observation" % name)
            ok = False
            continue
        p = ctx.path("selftest_%s.ndjson" % name)
        write_ndjson(p, rows2)
        fails, _ = ctx.validate(module, cfg, p, tag="selftest_" + name, env=env)
        lines = sorted({f["line"] for f in fails})
        good = lines == [line + 1]
        log("selftest %s: corrupted line %d -> validator rejected lines %s : %s" % (
            name, line + 1, lines, "OK" if good else "NOT DETECTED"))
        ok = ok and good
    return ok
