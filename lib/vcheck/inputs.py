"""Literal input files for the CLI scenarios (the binary is run on these by the harness family "cli")."""

REF = "GGC" + "ATGGCTAAAGGTCCCTGTACTGAATAA" + "TTG"   # CDS 4..30 : M A K G P C T E *


def fasta(recs, wrap=0, nl="\n"):
    out = []
    for name, seq in recs:
        out.append(">" + name)
        if wrap and wrap > 0:
            out += [seq[i:i + wrap] for i in range(0, len(seq), wrap)] or [""]
        else:
            out.append(seq)
    return nl.join(out) + nl


def genbank(origin=REF, feats=(("4..30", "g1", 1, "MAKGPCTE"),)):
    lines = ["LOCUS       TEST %d bp" % len(origin), "FEATURES             Location/Qualifiers",
             "     source          1..%d" % len(origin), '                     /organism="test"']
    for loc, gene, cs, tr in feats:
        lines += ["     CDS             " + loc, '                     /gene="%s"' % gene,
                  "                     /codon_start=%d" % cs, '                     /translation="%s"' % tr]
    lines.append("ORIGIN")
    low = origin.lower()
    for i in range(0, len(low), 60):
        lines.append("%9d %s" % (i + 1, low[i:i + 60]))
    lines.append("//")
    return "\n".join(lines) + "\n"


def gff(rows, origin=REF, seqid="ref", fasta_section=True, seqregion=True):
    """rows: (type, start, end, strand, phase, attrs)"""
    lines = ["##gff-version 3"]
    if seqregion:
        lines.append("##sequence-region %s 1 %d" % (seqid, len(origin)))
    for typ, s, e, strand, phase, attrs in rows:
        lines.append("\t".join([seqid, ".", typ, str(s), str(e), ".", strand, str(phase), attrs]))
    if fasta_section:
        lines += ["##FASTA", ">" + seqid, origin]
    return "\n".join(lines) + "\n"


def sam(recs, refname="ref", reflen=len(REF), header=True):
    """recs: (name, flag, pos0, cigar, seq)"""
    lines = []
    if header:
        lines += ["@SQ\tSN:%s\tLN:%d" % (refname, reflen), "@PG\tID:vharness\tPN:vharness"]
    for name, flag, pos, cigar, seq in recs:
        lines.append("\t".join([name, str(flag), refname, str(pos + 1), "60", cigar, "*", "0", "0", seq or "*", "*"]))
    return "\n".join(lines) + "\n"


def mutate(seq, i, k=None):
    nxt = {"A": "C", "C": "G", "G": "T", "T": "A"}
    b = list(seq)
    p = 3 + (i * 5) % 27 if k is None else k
    b[p] = nxt[b[p]]
    return "".join(b)
