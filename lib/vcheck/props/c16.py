"""C16 - FASTA reading is layout-independent, strict, total and the same in every reader."""
from .. import kernel
from ..common import read_ndjson


def collect(ctx):
    ctx.tlc("MCFasta", "MC_Fasta.cfg" if ctx.quick else "MC_Fasta_thorough.cfg", workers=16, timeout=3000)
    ctx.tlc("MCAlphabet", "MCAlphabet.cfg", workers=8)
    ctx.build(gofasta=False)
    vecs = kernel.tlc_gen(ctx, "GenFasta", "GenFasta.cfg" if ctx.quick else "GenFasta_thorough.cfg", timeout=3000)
    vecs += kernel.rand_vectors(ctx, "fasta", 1500 if ctx.quick else 30000)
    vecs += buffer_edge_vectors(ctx)
    long_line = ">s1\nACGTACGTAC\n>s2\n" + "ACGT" * 270000 + "\n>s3\nACGTACGTAC\n"
    vecs.append({"id": "line-over-1MiB-in-second-record", "raw": [ord(ch) for ch in long_line]})
    return kernel.run_vectors(ctx, "fasta", vecs, timeout=6000)


def buffer_edge_vectors(ctx):
    """Valid three-record alignments, one line per sequence, of every width around 4 kB and 8 kB (and 16 kB in thorough): a record
    boundary at every offset relative to the 4096-byte (doubling) buffers of bufio - where a reader that keeps a slice of the
    scanner's buffer across Scan calls, or assumes a header is already buffered, goes wrong."""
    import random
    rng = random.Random(ctx.seed + 5)
    widths = list(range(4060, 4104, 1 if not ctx.quick else 2)) + list(range(8160, 8200, 1 if not ctx.quick else 3))
    if not ctx.quick:
        widths += list(range(16350, 16390))
    out = []
    for w in widths:
        recs = [("s1", "".join(rng.choice("ACGT") for _ in range(w))), ("s2 second", "".join(rng.choice("ACGT") for _ in range(w))),
                ("s3", "".join(rng.choice("ACGT") for _ in range(w)))]
        text = "".join(">%s\n%s\n" % r for r in recs)
        out.append({"id": "edge-%d" % w, "raw": [ord(ch) for ch in text], "valid": 3})
    return out


def run(ctx):
    ctx.rule = ("TLC steps the shared line scanner over every stream of <=4 (thorough 5) lines over 11 line kinds (headers with/without description/ID, "
                "upper/lower-case, gap/N, short, non-alphabet sequence lines, blank) against Records and the statement's four error classes; the same "
                "streams x LF/CRLF x final line end are fed to the five readers (ReadAlignment, ReadEncodeAlignment, ReadEncodeScoreAlignment, "
                "ReadEncodeAlignmentToList, variants.findReference through variants.Variants); seeded structured byte mutations of valid alignments "
                "(flips, truncation, duplicated/blank/'>'-only lines, 20 kB lines, CR/NUL); non-trivial = a stream of at least two lines")
    obs = collect(ctx)
    rows, fails, _ = kernel.validate_obs(ctx, "ObsC16", "ObsC16.cfg", obs, tag="fasta")
    kernel.account(ctx, rows, lambda r: len(r["vec"].get("lines", r["vec"].get("raw", []))) >= 2)
    ctx.exhaustive = True
    ctx.assumptions = ["streams with blank lines, headers without an ID or records without sequence are 'read or refused' (no verdict on which), never a crash",
                       "the byte-level part is seeded structured mutation judged for totality and reader agreement, not coverage-guided fuzzing (DESIGN.md section 8)",
                       "the plain-text reader does not validate symbols (it has no alphabet) and is exempt from the BadSymbol clause"]


def selftest(ctx):
    obs = collect(ctx)

    def wrong_symbol(rows):
        for i, r in enumerate(rows):
            if r["vec"].get("lines") == ["ha", "AC", "hb", "GT"]:
                r["obs"]["list"]["recs"][1]["seq"][0] = "T"
                return i

    def swallowed_error(rows):
        for i, r in enumerate(rows):
            if r["vec"].get("lines") == ["ha", "AC", "hb", "A"]:
                for k in ("enc", "score", "list"):
                    r["obs"][k]["err"] = ""
                return i

    ok = kernel.selftest_corrupt(ctx, "ObsC16", "ObsC16.cfg", obs, [("wrong_symbol", wrong_symbol), ("swallowed_error", swallowed_error)])
    return 0 if ok else 1
