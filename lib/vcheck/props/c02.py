"""C02 - sam toPairAlign reconstructs each pairwise alignment losslessly."""
from .. import samcommon
from .c01 import RULE


def run(ctx):
    # the re-gap machine of blockToSeqPair (as repaired) refines PairOf for every non-conflicting block of <=2 (thorough 3)
    # records from 16 shapes; with the original column rule (own insertions ignored) TLC must find the counterexample
    ctx.tlc("PairAlign", "MC_PairAlign.cfg" if ctx.quick else "MC_PairAlign_thorough.cfg", workers=8)
    res = ctx.tlc("PairAlign", "MC_PairAlign_AsCoded.cfg", workers=4, expect_violation=True, tag="pa_ascoded", count=False)
    if "Refines" not in res["violations"]:
        from ..common import Machinery
        raise Machinery("PairAlign with OwnOffsets=FALSE no longer violates Refines: model drifted")
    ctx.rule = RULE + "; C02 judges the toPairAlign runs (plain, windowed, --skip-insertions, --omit-reference, wrapped) and the derived clauses against the real toMultiAlign --pad run"
    samcommon.run(ctx, "C02", 150 if ctx.quick else 2000)
    ctx.assumptions = ["as C01, and the records of one query cover pairwise disjoint reference intervals and do not insert at the same anchor (non-conflicting)"]
