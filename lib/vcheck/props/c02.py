"""C02 - sam toPairAlign reconstructs each pairwise alignment losslessly."""
from .. import samcommon
from .c01 import RULE


def run(ctx):
    ctx.rule = RULE + "; C02 judges the toPairAlign runs (plain, windowed, --skip-insertions, --omit-reference, wrapped) and the derived clauses against the real toMultiAlign --pad run"
    samcommon.run(ctx, "C02", 150 if ctx.quick else 2000)
    ctx.assumptions = ["as C01, and the records of one query cover pairwise disjoint reference intervals and do not insert at the same anchor (non-conflicting)"]
