"""C07 - raw, snp and tn93 distances equal their definitions for every pair."""
import math

from .. import kernel
from ..common import log


def tn93_eq7(st):
    """Tamura & Nei (1993) eq. 7 on the spec's integer statistics; None when a logarithm is undefined."""
    L = st["L"]
    n = st["A"] + st["C"] + st["G"] + st["T"]
    if L == 0 or n == 0:
        return None
    gA, gC, gG, gT = st["A"] / n, st["C"] / n, st["G"] / n, st["T"] / n
    gR, gY = gA + gG, gC + gT
    if min(gA, gC, gG, gT) <= 0:
        return None
    P1, P2, Q = st["P1"] / L, st["P2"] / L, st["Q"] / L
    a1 = 1.0 - gR / (2 * gA * gG) * P1 - Q / (2 * gR)
    a2 = 1.0 - gY / (2 * gT * gC) * P2 - Q / (2 * gY)
    a3 = 1.0 - Q / (2 * gR * gY)
    if min(a1, a2, a3) <= 1e-9:
        return None
    return (-(2 * gA * gG / gR) * math.log(a1) - (2 * gT * gC / gY) * math.log(a2)
            - 2 * (gR * gY - gA * gG * gY / gR - gT * gC * gR / gY) * math.log(a3))


def nontrivial(r):
    rows = r["obs"].get("rows") or []
    return any(x.get("dist", 0) not in (0, -1) for x in rows)


def collect(ctx):
    ctx.tlc("MCAlphabet", "MCAlphabet.cfg", workers=8)
    ctx.build(gofasta=False)
    vecs = kernel.tlc_gen(ctx, "GenC07", "GenC07.cfg")
    vecs += kernel.rand_vectors(ctx, "closest7", 600 if ctx.quick else 6000)
    return kernel.run_vectors(ctx, "closest", vecs)


def judge_tn93(ctx, rows, stats):
    checked = skipped = 0
    for s in stats:
        want = tn93_eq7(s["st"])
        if want is None:
            skipped += 1
            continue
        try:
            got = float(s["dtext"])
        except ValueError:
            got = float("nan")
        checked += 1
        if not (abs(got - want) <= 5e-9):
            row = rows[s["line"] - 1]
            ctx.add_failure("distance-tn93", "distance-tn93", row["id"],
                            {"vec": row["vec"], "row": s["row"], "stats": s["st"], "observed": s["dtext"], "expected": "%.9f" % want})
    ctx.extra["tn93_pairs_checked"] = checked
    ctx.extra["tn93_pairs_undefined_skipped"] = skipped
    log("tn93: %d pairs checked against eq. 7, %d undefined skipped" % (checked, skipped))


def run(ctx):
    ctx.rule = ("TLC enumerates all 289 symbol pairs at width 1 in a resolved 12-column context (table mode and plain mode, 3 measures, "
                "both directions), all 49x49 width-2 combinations over {A,C,G,T,R,N,-}, bare width-1 pairs; seeded random pairs of width "
                "10-300, and repeated-unit alignments of 70,000-140,000 columns (a unit of 12-20 columns and its repeat count; the counts scale by "
                "Distance!ThmRepeat); non-trivial = a run with at least one non-zero defined distance")
    obs = collect(ctx)
    rows, fails, stats = kernel.validate_obs(ctx, "ObsC07", "ObsC07.cfg", obs, tag="closest")
    judge_tn93(ctx, rows, stats)
    kernel.account(ctx, rows, nontrivial)
    ctx.exhaustive = True
    ctx.assumptions = ["tn93: TLC decides the column classes and counts (P1,P2,Q,L, target base counts); eq. 7 is evaluated in float64 by the "
                       "driver on those integers and compared to 5e-9 (DESIGN.md section 8)",
                       "fewer than 1024 compared sites per pair, or per unit of a repeated-unit alignment (no 9-decimal rounding ties)",
                       "tn93 pairs whose logarithm arguments are not positive are skipped"]


def selftest(ctx):
    obs = collect(ctx)

    def bump_dist(rows):
        for i, r in enumerate(rows):
            if r["vec"]["measure"] == "raw":
                for x in r["obs"]["rows"]:
                    if x.get("dist", -1) > 0:
                        x["dist"] += 1
                        return i

    def bump_snp(rows):
        for i, r in enumerate(rows):
            if r["vec"]["measure"] == "snp" and r["obs"]["rows"]:
                r["obs"]["rows"][0]["dist"] += 1
                return i

    ok = kernel.selftest_corrupt(ctx, "ObsC07", "ObsC07.cfg", obs, [("bump_dist", bump_dist), ("bump_snp", bump_snp)])
    return 0 if ok else 1
