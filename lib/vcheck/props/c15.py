"""C15 - windowing, padding, wrapping and input-channel options only select or re-lay-out."""
from .. import kernel, samcommon, varcommon
from ..common import read_ndjson
from ..inputs import REF, mutate, sam
from .c01 import RULE


def legacy_vectors(quick=True, seed=1):
    """sam toMultiAlign: the hidden --trim/--trimstart/--trimend flags equal --start/--end shifted to 1-based inclusive."""
    recs = [("q%d" % i, 0, 0, "%dM" % len(REF), mutate(REF, i)) for i in range(4)]
    recs.append(("q4", 0, 5, "10M2D8M", mutate(REF, 4)[5:15] + mutate(REF, 4)[17:25]))
    files = {"in.sam": {"text": sam(recs)}}
    base = ["sam", "toMultiAlign", "-s", "@in.sam"]
    vecs = []
    L = len(REF)
    # every legacy window 0 <= trimstart < trimend <= L (0-based, half open) against --start trimstart+1 --end trimend
    windows = [(a, b) for a in range(0, L) for b in range(a + 1, L + 1)]
    if quick:
        windows = [w for k, w in enumerate(windows) if (k + seed) % 9 == 0] + [(0, L), (0, 1), (L - 1, L)]
    for a, b in windows:
        for pad in (False, True):
            new = base + ["--start", str(a + 1), "--end", str(b)] + (["--pad"] if pad else [])
            old = base + (["--trim"] if (a + b) % 2 else []) + ["--trimstart", str(a), "--trimend", str(b)] + (["--pad"] if pad else [])
            vecs.append({"id": "legacy-%d-%d-%s" % (a, b, pad), "fam": "cli", "sig": "legacy-trim-flags", "files": files,
                         "args": old, "base": {"args": new}, "reps": 1})
    # one legacy bound only
    vecs.append({"id": "legacy-start-only", "fam": "cli", "sig": "legacy-trim-flags", "files": files,
                 "args": base + ["--trimstart", "4"], "base": {"args": base + ["--start", "5"]}, "reps": 1})
    vecs.append({"id": "legacy-end-only", "fam": "cli", "sig": "legacy-trim-flags", "files": files,
                 "args": base + ["--trimend", "9"], "base": {"args": base + ["--end", "9"]}, "reps": 1})
    return vecs


def run(ctx):
    ctx.rule = (RULE + "; C15 judges the relations between real runs: toMultiAlign window vs untrimmed (with/without --pad, one bound or both), "
                "toPairAlign cut at reference columns, wrap re-breaking, legacy --trim flags vs --start/--end (binary), variants / sam variants "
                "--start / --end alone or together vs the unfiltered run, stdin vs file (binary)")
    samcommon.run(ctx, "C15", 100 if ctx.quick else 1500)
    n0 = len(ctx.failures)
    obs = varcommon.collect(ctx, extra_vecs=varcommon.refdup_vectors(ctx))
    rows, fails, _ = kernel.validate_obs(ctx, "ObsVariants", "ObsVariants.cfg", obs, tag="variants", timeout=6000)
    ctx.failures = ctx.failures[:n0] + [f for f in ctx.failures[n0:] if f["clause"].startswith("C15-") or f["clause"] in ("panic", "timeout")]
    kernel.account(ctx, rows, varcommon.nontrivial)
    lv = legacy_vectors(ctx.quick, ctx.seed)
    cobs = kernel.run_vectors(ctx, "cli", lv, tag="legacy", jobs=8)
    kernel.validate_obs(ctx, "ObsC12", "ObsC12.cfg", cobs, tag="legacy")
    ctx.evaluations += len(lv)
    for v in lv:
        ctx.nontrivial.add(v["id"])
    ctx.assumptions = ["relations are between two real runs of the same input; the expected content itself is C01/C02/C04's business",
                       "an aa: record's position is its codon's first base; codons straddling a join are not judged for window membership"]
