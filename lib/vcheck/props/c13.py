"""C13 - --aggregate frequencies are the per-sequence results, counted."""
from .. import varcommon


def run(ctx):
    ctx.rule = varcommon.RULE + "; the counting machine (any arrival order, any map iteration order, stable sort, threshold filter) is model-checked against AggOf (Aggregate.tla)"
    ctx.tlc("Aggregate", "MC_Aggregate.cfg", workers=8)
    varcommon.run(ctx, ["C13-"])
    snps_part(ctx)
    ctx.assumptions = ["annotation consistent with the genome: every CDS ends in a stop codon of the reference, GenBank /translation and GFF phases are "
                       "computed from the same layout (GFF3 phase semantics)",
                       "reference rows use A/C/G/T; query symbols are upper-case IUPAC or '-'",
                       "an aa: record is positioned at its codon's first base; codons straddling a join are not judged for order / window membership"]


def snps_part(ctx):
    """The snps command's --aggregate (clause 'aggregate' of ObsC03) belongs to C13 as well."""
    from .. import kernel
    vecs = kernel.tlc_gen(ctx, "GenC03", "GenC03.cfg", tag="snps")
    vecs = [v for v in vecs if v.get("thr", -1) >= 0]
    vecs += [v for v in kernel.rand_vectors(ctx, "snps", 300 if ctx.quick else 3000) if v.get("thr", -1) >= 0]
    obs = kernel.run_vectors(ctx, "snps", vecs, tag="snps")
    n0 = len(ctx.failures)
    rows, fails, _ = kernel.validate_obs(ctx, "ObsC03", "ObsC03.cfg", obs, tag="snps")
    ctx.failures = ctx.failures[:n0] + [f for f in ctx.failures[n0:] if f["clause"] in ("aggregate", "agg-error", "panic", "timeout")]
    kernel.account(ctx, rows, lambda r: len(r["obs"].get("agg") or []) > 0)
