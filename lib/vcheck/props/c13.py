"""C13 - --aggregate frequencies are the per-sequence results, counted."""
from .. import varcommon


def run(ctx):
    ctx.rule = varcommon.RULE + "; the counting machine (any arrival order, any map iteration order, stable sort, threshold filter) is model-checked against AggOf (Aggregate.tla)"
    ctx.tlc("Aggregate", "MC_Aggregate.cfg", workers=8)
    varcommon.run(ctx, ["C13-"], rand_n=40 if ctx.quick else 800, extra_vecs=variants_boundary_vectors(ctx))
    snps_part(ctx)
    ctx.assumptions = ["annotation consistent with the genome: every CDS ends in a stop codon of the reference, GenBank /translation and GFF phases are "
                       "computed from the same layout (GFF3 phase semantics)",
                       "reference rows use A/C/G/T; query symbols are upper-case IUPAC or '-'",
                       "an aa: record is positioned at its codon's first base; codons straddling a join are not judged for order / window membership"]


def snps_part(ctx):
    """The snps command's --aggregate (clause 'aggregate' of ObsC03) belongs to C13 as well."""
    from .. import kernel
    vecs = kernel.tlc_gen(ctx, "GenC03", "GenC03.cfg", tag="snps")
    vecs = [v for v in vecs if v.get("thr", -1) >= 0]
    vecs += boundary_vectors(ctx)
    vecs += [v for v in kernel.rand_vectors(ctx, "snps", 300 if ctx.quick else 3000) if v.get("thr", -1) >= 0]
    obs = kernel.run_vectors(ctx, "snps", vecs, tag="snps")
    n0 = len(ctx.failures)
    rows, fails, _ = kernel.validate_obs(ctx, "ObsC03", "ObsC03.cfg", obs, tag="snps")
    ctx.failures = ctx.failures[:n0] + [f for f in ctx.failures[n0:] if f["clause"] in ("aggregate", "agg-error", "agg-cli-wiring", "panic", "timeout")]
    kernel.account(ctx, rows, lambda r: len(r["obs"].get("agg") or []) > 0)


def boundary_vectors(ctx):
    """n sequences, SNP A1C in exactly k of them, A2G in k-1, A3T in k+1, threshold = k/n written with three decimals (exact):
    every n in a list that makes k/n finite at 3 decimals, several k each - where float(k)/float(n), threshold*n or
    ceil(threshold*n) could round the wrong way."""
    import random
    rng = random.Random(ctx.seed)
    out = []
    for n in list(range(2, 65)) + [100, 125, 200, 250, 500]:
        ks = [k for k in range(1, n + 1) if (k * 1000) % n == 0]
        if ctx.quick and n > 100:      # every k for n <= 100 (253 vectors); a seed-dependent sample beyond in the quick tier
            ks = rng.sample(ks, min(len(ks), 6))
        for k in ks:
            qs = []
            for i in range(n):
                s = ["A", "A", "A"]
                if i < k:
                    s[0] = "C"
                if i < k - 1:
                    s[1] = "G"
                if i < k + 1:
                    s[2] = "T"
                qs.append(s)
            rng.shuffle(qs)
            out.append({"id": "thr-%d-%d" % (k, n), "ref": ["A", "A", "A"], "qs": qs, "hard": False, "lowr": False, "lowq": False,
                        "wrap": 0, "thr": k * 1000 // n})
    # frequencies with no finite decimal expansion, the threshold written with nine decimals just below and just above k/n
    # (a printed, rounded frequency fed back in as the threshold)
    for n in (3, 6, 7, 9, 11, 12, 13, 14, 21, 30, 48, 49):
        for k in range(1, n):
            if (k * 10 ** 9) % n == 0:
                continue
            for up in (0, 1):
                qs = [["C" if i < k else "A", "G" if i < k - 1 else "A", "T" if i < k + 1 else "A"] for i in range(n)]
                rng.shuffle(qs)
                out.append({"id": "thr9-%d-%d-%s" % (k, n, "above" if up else "below"), "ref": ["A", "A", "A"], "qs": qs, "hard": False,
                            "lowr": False, "lowq": False, "wrap": 0, "thr": 0, "thr9": k * 10 ** 9 // n + up})
    return out


GENOME = "TTGATGGCTAAATAAGGCTCACCCGGGCAT"


def variants_boundary_vectors(ctx):
    """The same boundary for `variants --aggregate`: a mutation carried by exactly k of n sequences, threshold k/n."""
    import random
    rng = random.Random(ctx.seed + 7)
    feats = [{"name": "g1", "kind": "CDS", "named": True, "strand": 1, "segs": [[4, 15]], "cstart": 1, "gbform": 0}]

    def run(agg, thr):
        return {"cmd": "variants", "anno": "gb", "append": False, "s": -1, "e": -1, "agg": agg, "thr": thr, "t": 2, "stdin": False}

    out = []
    # every n up to 64 (and 100, 125) for which some k/n is a multiple of 0.001, k = n (threshold 1) included: the places where
    # k/n, k*(1/n), threshold*n or their roundings can fall on the wrong side
    combos = [(k, n) for n in list(range(2, 65)) + [100, 125] for k in range(1, n + 1) if (k * 1000) % n == 0]
    if ctx.quick:
        small = [c for c in combos if c[1] <= 64]
        big = [c for c in combos if c[1] > 64]
        combos = small + rng.sample(big, min(len(big), 20))
    for k, n in combos:
        if True:
            qs = []
            for i in range(n):
                s = list(GENOME)
                if i < k:
                    s[1] = "A"          # nuc:T2A in exactly k sequences
                if i < k - 1:
                    s[16] = "C"         # nuc:G17C in k-1
                if i < k + 1:
                    s[7] = "G"          # codon 2 GCT -> GGT (aa:g1:A2G) in k+1
                qs.append(s)
            rng.shuffle(qs)
            # every third vector carries the reference record twice (two alignments to one reference, concatenated): the
            # per-sequence output skips both copies, so neither may be counted
            out.append({"id": "vthr-%d-%d" % (k, n), "kind": "anno", "R": list(GENOME), "qs": qs, "feats": feats, "refdup": (k + n) % 3 == 0,
                        "dupname": (k + n) % 3 == 1,
                        "runs": [run(False, 0), run(True, k * 1000 // n)] + ([dict(run(False, 0), stdin=True)] if (k + n) % 3 == 0 else [])})
    for n in (3, 6, 7, 9, 11, 13):
        for k in range(1, n):
            if (k * 10 ** 9) % n == 0:
                continue
            qs = []
            for i in range(n):
                s = list(GENOME)
                if i < k:
                    s[1] = "A"
                if i < k - 1:
                    s[16] = "C"
                if i < k + 1:
                    s[7] = "G"
                qs.append(s)
            rng.shuffle(qs)
            out.append({"id": "vthr9-%d-%d" % (k, n), "kind": "anno", "R": list(GENOME), "qs": qs, "feats": feats,
                        "runs": [run(False, 0), dict(run(True, 0), thr9=k * 10 ** 9 // n), dict(run(True, 1), thr9=k * 10 ** 9 // n + 1)]})
    return out
