"""C03 - snps reports exactly the certainly-different sites, in reference order."""
from .. import kernel


def nontrivial(r):
    rows = r["obs"].get("rows") or []
    n = sum(len(x.get("snps", [])) for x in rows)
    w = len(r["vec"]["ref"]) * max(1, len(r["vec"]["qs"]))
    return 0 < n < w


def collect(ctx):
    ctx.tlc("MCAlphabet", "MCAlphabet.cfg", workers=8)
    ctx.build(gofasta=False)
    vecs = kernel.tlc_gen(ctx, "GenC03", "GenC03.cfg")
    vecs += kernel.rand_vectors(ctx, "snps", 300 if ctx.quick else 3000)
    return kernel.run_vectors(ctx, "snps", vecs)


def run(ctx):
    ctx.rule = ("TLC enumerates every (reference symbol, query symbol) pair x {soft,hard} x 4 case combinations and every "
                "width-3 row over {A,C,R,N,-,?} against chosen references (all of them in thorough); seeded random alignments "
                "(width 5-125, 1-30 queries, wrapped/CRLF/lower case/unterminated last line), rows of several kilobytes, and padded alignments of "
                "more than 100,000 columns (a unit alignment with runs of identical columns inserted; positions shift by Distance!ThmPad); non-trivial = an alignment with at least one SNP column "
                "and at least one non-SNP column, distinct by canonical hash of the abstract input")
    obs = collect(ctx)
    rows, fails, _ = kernel.validate_obs(ctx, "ObsC03", "ObsC03.cfg", obs, tag="snps")
    # C13 clauses are reported by C13's own check
    ctx.failures = [f for f in ctx.failures if f["clause"] not in ("aggregate", "agg-error", "agg-cli-wiring")]
    kernel.account(ctx, rows, nontrivial)
    ctx.exhaustive = True
    ctx.assumptions = ["symbols outside the 17-symbol alphabet are C16/C18's business",
                       "rows are identified by the harness-chosen names q1..qn; output parsing (text -> [ref,pos,alt]) is done by the harness"]


def selftest(ctx):
    obs = collect(ctx)

    def bump_pos(rows):
        for i, r in enumerate(rows):
            for x in r["obs"]["rows"]:
                if x["snps"]:
                    x["snps"][0][1] += 1
                    return i

    def drop_snp(rows):
        for i, r in enumerate(rows):
            for x in r["obs"]["rows"]:
                if len(x["snps"]) > 1:
                    x["snps"].pop()
                    return i

    def swap_rows(rows):
        for i, r in enumerate(rows):
            rs = r["obs"]["rows"]
            if len(rs) > 1:
                rs[0]["qi"], rs[1]["qi"] = rs[1]["qi"], rs[0]["qi"]
                return i

    ok = kernel.selftest_corrupt(ctx, "ObsC03", "ObsC03.cfg", obs,
                                 [("bump_pos", bump_pos), ("drop_snp", drop_snp), ("swap_rows", swap_rows)])
    return 0 if ok else 1
