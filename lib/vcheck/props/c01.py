"""C01 - sam toMultiAlign projects every query onto reference coordinates exactly."""
from .. import samcommon

RULE = ("TLC steps the CIGAR walk / column flattening / flank rewrite machines against the per-position definitions for every SAM-valid CIGAR "
        "of <=3 (thorough 4) operations over all nine operators (lengths 1..2, POS 0..2), every column content and every row over {A,C,-,*} "
        "of length <=5 (6) x pad x window; the same CIGARs as one-record queries, 242 two-record and 36 three-record blocks from a menu "
        "(overlap, conflict, abutting, insertions at either end) interleaved with unmapped/secondary records and a second query are run "
        "under 12 option sets each; seeded random blocks on references of 30-120 bases; non-trivial = >=2 operator kinds or >=2 records")


def run(ctx):
    ctx.rule = RULE
    samcommon.run(ctx, "C01", 150 if ctx.quick else 2000)
    ctx.assumptions = ["one @SQ line; records inside the reference; records of a query contiguous; every emitted query has >=1 aligned base; SEQ over upper-case IUPAC letters"]
