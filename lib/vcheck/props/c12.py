"""C12 - output is a deterministic function of the input, not of threads or scheduling."""
import os

from .. import kernel, pipetrace, repotests
from ..common import Machinery, log, read_ndjson
from ..inputs import REF, fasta, gff, mutate, sam

CMDS = ["toma", "tomapad", "samvar", "variants", "variantsref", "snps", "udlist"]


def tie_msa():
    """variants --aggregate: two insertions after the same reference base (lengths 1 and 2) tie on the sort key."""
    ref = REF[:6] + "--" + REF[6:]
    recs = [("ref", ref)]
    for i in range(6):
        s = REF[:6] + ["A-", "AC", "--"][i % 3] + mutate(REF, i)[6:]
        recs.append(("q%d" % i, s))
    return fasta(recs)


def syn_msa():
    """One amino-acid change reached through different SNPs (codon 2 GCT -> TCT and -> AGT, both A2S), alternating: with
    --append-snps these are different records, whichever worker delivers first."""
    recs = [("ref", REF)]
    for i in range(6):
        recs.append(("q%d" % i, REF[:6] + ("TCT" if i % 2 == 0 else "AGT") + REF[9:]))
    return fasta(recs)


def samestart_gff():
    return gff([("CDS", 4, 30, "+", 0, "ID=a;Name=g1"),
                ("mature_protein_region_of_CDS", 4, 12, "+", ".", "ID=b;Name=g2"),
                ("mature_protein_region_of_CDS", 4, 21, "+", ".", "ID=c;Name=g3")])


def cli_vectors(ctx, gate_topa):
    quick = ctx.quick
    reps = 4 if quick else 12
    files = {"in.sam": {"kind": "pipe-sam", "N": 24}, "ref.fa": {"kind": "pipe-ref"}, "m.fa": {"kind": "pipe-msa", "N": 24},
             "m.fasta": {"kind": "pipe-msa", "N": 24}, "ref.fasta": {"kind": "pipe-ref"}, "a.gb": {"kind": "pipe-gb"},
             "tie.fa": {"text": tie_msa()}, "same.gff": {"text": samestart_gff()}, "syn.fa": {"text": syn_msa()},
             # a second record under the reference's name, with mutations of its own (the writers pass over every record of that name)
             "namesake.fa": {"text": fasta([("ref", REF), ("q0", mutate(REF, 0, 7)), ("q1", mutate(REF, 1, 8)), ("ref", mutate(REF, 2, 9)), ("q2", mutate(REF, 0, 7))])},
             "one.fa": {"text": fasta([("ref", REF), ("q0", mutate(REF, 0, 7)), ("q1", mutate(REF, 1, 8))])},
             "pq.fasta": {"text": fasta([("q0", mutate(mutate(REF, 0, 5), 0, 9))])},
             # 20 'up' targets at distance 1 and 20 at distance 2, interleaved: ties on (distance, ambiguity) in one direction
             "pt.fasta": {"text": fasta([("t%d" % i, REF if i % 2 else mutate(REF, 0, 5)) for i in range(40)])}}
    vecs = []

    def add(id_, args, base=None, env=None, parse="", hdr=0, n=None, sig=None, r=reps, race=False):
        v = {"id": id_, "fam": "cli", "files": files, "args": args, "reps": r, "parse": parse, "hdrlines": hdr,
             "sig": sig or id_.split("/")[0], "race": race}
        if n is not None:
            v["N"] = n
        if base:
            v["base"] = {"args": base}
        if env:
            v["env"] = env
        vecs.append(v)

    topa = ["sam", "toPairAlign", "-s", "@in.sam", "-r", "@ref.fa", "-o", "stdout"]
    for t in ([4] if quick else [2, 4, 16]):
        for js in ([ctx.seed] if quick else [ctx.seed, ctx.seed + 1, ctx.seed + 2]):
            add("topa-stdout/t%d/j%d" % (t, js), topa + ["-t", str(t)], base=topa + ["-t", "1"],
                env={"VHOOK_JITTER": str(js)}, parse="topa", n=24)
    # windowed toPairAlign on queries whose insertions have the same total length at different places (same row width):
    # whatever a worker keeps from the previous record shows as a difference between thread counts
    def ins_rec(i):
        a = 10 if i % 2 else 25
        seq = mutate(REF, i)
        return ("q%d" % i, 0, 0, "%dM3I%dM" % (a, len(REF) - a), seq[:a] + "TTT" + seq[a:])
    files["ins.sam"] = {"text": sam([ins_rec(i) for i in range(24)])}
    win = ["sam", "toPairAlign", "-s", "@ins.sam", "-r", "@ref.fa", "-o", "stdout", "--start", "12", "--end", "28"]
    for t in ([2, 4] if quick else [2, 3, 4, 8, 16]):
        add("topa-window-insertions/t%d" % t, win + ["-t", str(t)], base=win + ["-t", "1"], env={"VHOOK_JITTER": str(ctx.seed + t)},
            parse="topa", n=24, sig="topa-window", r=max(reps, 6))
    GEN = "TTGATGGCTAAATAAGGCTCACCCGGGCAT"        # forward gene 4..15 (M A K *), reverse gene 19..30 (M P G *)
    from ..inputs import genbank
    files["rev.gb"] = {"text": genbank(origin=GEN, feats=(("4..15", "g1", 1, "MAK"), ("complement(19..30)", "g2", 1, "MPG")))}
    nxt = {"A": "C", "C": "G", "G": "T", "T": "A"}

    def rev_rec(i):
        s = list(GEN)
        for p in (18 + (i * 7) % 12, 18 + (i * 5 + 3) % 12, 3 + (i * 11) % 12):
            s[p] = nxt[s[p]] if i % 4 else "RYKM"[(i // 4) % 4]
        return ("q%d" % i, "".join(s))
    files["rev.fa"] = {"text": fasta([("ref", GEN)] + [rev_rec(i) for i in range(400)])}
    rv = ["variants", "--msa", "@rev.fa", "--reference", "ref", "-a", "@rev.gb", "--append-snps"]
    for t in ([4, 8] if quick else [2, 3, 4, 8, 16]):
        add("variants-reverse-strand/t%d" % t, rv + ["-t", str(t)], base=rv + ["-t", "1"], parse="csv", hdr=1, n=400, sig="variants-reverse-strand", r=max(reps, 6))
    big = dict(files)
    big["big.sam"] = {"kind": "pipe-sam", "N": 3000}
    big["big.fa"] = {"kind": "pipe-msa", "N": 3000}
    for name, args in (("toma", ["sam", "toMultiAlign", "-s", "@big.sam", "-t", "2"]), ("tomawrap", ["sam", "toMultiAlign", "-s", "@big.sam", "-w", "10", "-t", "2"]),
                       ("topa", ["sam", "toPairAlign", "-s", "@big.sam", "-r", "@ref.fa", "-o", "stdout", "-t", "2"]),
                       ("snps", ["snps", "-r", "@ref.fa", "-q", "@big.fa"]), ("udlist", ["updown", "list", "-r", "@ref.fa", "-q", "@big.fa"]),
                       ("variants", ["variants", "--msa", "@big.fa", "-a", "@a.gb", "-t", "2"])):
        vecs.append({"id": "slow-reader/%s" % name, "fam": "cli", "files": big, "args": args, "reps": 2, "parse": "", "hdrlines": 0, "sig": "slow-reader-" + name,
                     "race": False, "stdout_mode": "slow", "base": {"args": args}, "deadline_s": 60})
    # one and two processors (affinity mask): commands that size their worker pool with runtime.NumCPU
    for cpus in ("0", "0,1"):
        for name, args in (("snps", ["snps", "-r", "@ref.fa", "-q", "@m.fa"]), ("udlist", ["updown", "list", "-r", "@ref.fa", "-q", "@m.fa"]),
                           ("toprank", ["updown", "topranking", "-q", "@m.fasta", "-t", "@m.fasta", "-r", "@ref.fasta", "--size-total", "6"]),
                           ("closest", ["closest", "--query", "@m.fa", "--target", "@m.fa"]),
                           ("variants", ["variants", "--msa", "@m.fa", "-a", "@a.gb", "-t", "3"]),
                           ("toma", ["sam", "toMultiAlign", "-s", "@in.sam", "-t", "3"])):
            v = {"id": "cpus%s/%s" % (cpus.replace(",", "+"), name), "fam": "cli", "files": files, "args": args, "reps": 2, "parse": "", "hdrlines": 0,
                 "sig": "processors-" + name, "race": False, "taskset": cpus, "base": {"args": args}}
            vecs.append(v)
    # imposed delivery orders from the model, small input
    small = dict(files)
    small["in.sam"] = {"kind": "pipe-sam", "N": gate_topa[0]["N"]} if gate_topa else files["in.sam"]
    for g in gate_topa:
        v = {"id": "topa-gate/%s" % g["id"], "fam": "cli", "files": small, "reps": 1, "parse": "topa", "hdrlines": 0, "N": g["N"],
             "sig": "topa-stdout", "args": topa + ["-t", str(g["T"])], "base": {"args": topa + ["-t", "1"]},
             "env": {"VHOOK_GATES": "sam.blockToPairwiseAlignment:%s:sam.trimAlignment;sam.trimAlignment:%s:sam.writePairwiseAlignment" % (
                         ",".join(str(x) for x in g.get("order1", [])), ",".join(str(x) for x in g["order"])),
                     "VHOOK_GATE_MS": "2000"}, "race": False}
        vecs.append(v)
    for t in ([1, 4] if quick else [1, 2, 4, 16]):
        for gmp in (["", "1"] if quick else ["", "1", "3"]):
            env = {"GOMAXPROCS": gmp} if gmp else None
            add("closest/t%d/p%s" % (t, gmp), ["closest", "--query", "@m.fa", "--target", "@m.fa", "-m", "raw", "-t", str(t)],
                base=["closest", "--query", "@m.fa", "--target", "@m.fa", "-m", "raw", "-t", "1"], env=env, parse="csv", hdr=1, n=24)
            add("closestn/t%d/p%s" % (t, gmp), ["closest", "-n", "3", "--table", "--query", "@m.fa", "--target", "@m.fa", "-m", "snp", "-t", str(t)],
                base=["closest", "-n", "3", "--table", "--query", "@m.fa", "--target", "@m.fa", "-m", "snp", "-t", "1"], env=env)
            add("toprank/p%s/t%d" % (gmp, t), ["updown", "topranking", "-q", "@m.fasta", "-t", "@m.fasta", "-r", "@ref.fasta", "--size-total", "6"],
                env=dict(env or {}, VHOOK_JITTER=str(ctx.seed + t)), parse="csv", hdr=1, n=24)
    add("toprank-push-ties", ["updown", "topranking", "-q", "@pq.fasta", "-t", "@pt.fasta", "-r", "@ref.fasta", "--dist-push", "2"],
        r=max(reps, 12), sig="toprank-push-ties")
    add("toprank-push-ties-table", ["updown", "topranking", "-q", "@pq.fasta", "-t", "@pt.fasta", "-r", "@ref.fasta", "--dist-push", "2", "--table"],
        r=max(reps, 12), sig="toprank-push-ties")
    agg = ["variants", "--msa", "@tie.fa", "--reference", "ref", "-a", "@a.gb", "--aggregate"]
    add("variants-aggregate-ties", agg + ["-t", "4"], base=agg + ["-t", "1"], r=max(reps, 10), sig="variants-aggregate-ties")
    aggapp = ["variants", "--msa", "@syn.fa", "--reference", "ref", "-a", "@a.gb", "--aggregate", "--append-snps"]
    add("variants-aggregate-append", aggapp + ["-t", "4"], base=aggapp + ["-t", "1"], r=max(reps, 6), sig="variants-aggregate-append")
    for order in ("2,1,3,4,5,6", "6,5,4,3,2,1", "3,4,1,2,6,5"):
        add("variants-aggregate-append/gate-" + order.replace(",", ""), aggapp + ["-t", "3"], base=aggapp + ["-t", "1"], r=1,
            env={"VHOOK_GATE": "variants.getVariants:" + order, "VHOOK_GATE_MS": "2000"}, sig="variants-aggregate-append")
    # a piped alignment small enough for the reader to have buffered all of it - and finished - before Main asks for the first
    # record: Main is held back at that point (hook + gate that gives up after 300 ms), so both of its channels are ready
    piped = ["variants", "--reference", "ref", "-a", "@a.gb", "-t", "2"]
    add("variants-stdin-reader-finished-first", piped, base=piped + ["--msa", "@one.fa"], r=max(reps, 12), sig="variants-stdin-small",
        env={"VHOOK_GATE": "variants.Variants.first:99,0", "VHOOK_GATE_MS": "300"})
    vecs[-1]["stdin"] = "@one.fa"
    for extra in ([], ["--aggregate"]):
        nsk = ["variants", "--msa", "@namesake.fa", "--reference", "ref", "-a", "@a.gb"] + extra
        add("variants-reference-namesake" + "".join(extra), nsk + ["-t", "4"], base=nsk + ["-t", "1"], r=max(reps, 6), sig="variants-reference-namesake")
        for order in ("3,0,1,2,4", "4,3,2,1,0", "1,3,0,2,4"):
            add("variants-reference-namesake%s/gate-%s" % ("".join(extra), order.replace(",", "")), nsk + ["-t", "3"], base=nsk + ["-t", "1"], r=1,
                env={"VHOOK_GATE": "variants.getVariants:" + order, "VHOOK_GATE_MS": "2000"}, sig="variants-reference-namesake")
    add("snps-aggregate", ["snps", "-r", "@ref.fa", "-q", "@m.fa", "--aggregate"], r=reps)
    per = ["variants", "--msa", "@one.fa", "--reference", "ref", "-a", "@same.gff"]
    add("variants-gff-same-start", per + ["-t", "2"], base=per + ["-t", "1"], r=max(reps, 10), sig="variants-gff-same-start")
    add("variants-gff-same-start-aggregate", per + ["--aggregate"], r=max(reps, 10), sig="variants-gff-same-start")
    # the race detector on the binary, jittered (quick: the two commands with the most shared state)
    if quick:
        for args in (["variants", "--msa", "@m.fa", "-a", "@a.gb", "-t", "4"], ["sam", "variants", "-s", "@in.sam", "-r", "@ref.fa", "-a", "@a.gb", "-t", "4"]):
            add("race/" + args[0] + "-" + args[1], args, env={"VHOOK_JITTER": str(ctx.seed)}, r=2, race=True, sig="race")
    if not quick:
        for args in (topa + ["-t", "4"], ["closest", "--query", "@m.fa", "--target", "@m.fa", "-t", "4"],
                     ["variants", "--msa", "@m.fa", "-a", "@a.gb", "-t", "4"],
                     ["updown", "topranking", "-q", "@m.fasta", "-t", "@m.fasta", "-r", "@ref.fasta", "--size-total", "6"]):
            add("race/" + args[0] + "-" + args[1], args, env={"VHOOK_JITTER": str(ctx.seed)}, r=2, race=True, sig="race")
    return vecs


def run(ctx):
    quick = ctx.quick
    ctx.rule = ("TLC model-checks the pipeline protocol for every command topology (N<=3 quick / 4 thorough records, T<=2/3 workers, every single "
                "fault): OrderInv, DoneOK, NoLostRecord, NoSendOnClosed, Termination, ErrReported; enumerates every delivery order the model "
                "allows and the harness imposes each on the real worker pool (gate hook); jittered runs (N=6 traced and trace-validated, N=50..200 "
                "output-compared, threads 1..16); CLI runs repeated in fresh processes (map seeds) with GOMAXPROCS variations; race detector builds; "
                "non-trivial = a run in which at least one record was delivered out of input order (counted by the hook)")
    ctx.tlc("MCPipeline", "MC_Pipeline.cfg" if quick else "MC_Pipeline_thorough.cfg", workers=16, timeout=3000)
    res = ctx.tlc("MCPipeline", "MC_Pipeline_OrderAsCoded.cfg", workers=8, expect_violation=True, tag="orderascoded", count=False)
    if "OrderInv" not in res["violations"]:
        raise Machinery("arrival-order writer no longer violates OrderInv in the model: model drifted")
    ctx.extra["arrival_order_writer_counterexample_found"] = True
    # the re-ordering writer, for every N and every arrival order: a TLAPS proof (the unbounded core of OrderInv / DoneOK)
    ctx.tlaps("ReorderWriter")
    # --aggregate: arrival order and Go's map iteration order are arbitrary; the output sequence is unique iff the sort key is total
    ctx.tlc("Aggregate", "MC_Aggregate.cfg", workers=8)
    res = ctx.tlc("Aggregate", "MC_Aggregate_AsCoded.cfg", workers=4, expect_violation=True, tag="agg_ascoded", count=False)
    if "Deterministic" not in res["violations"]:
        raise Machinery("the original (non-total) aggregate sort key no longer violates Deterministic: model drifted")
    # the first-record hand-off of `variants` on a piped alignment (F18): holds as repaired, refuted as it was coded
    ctx.tlc("FirstRecord", "MC_FirstRecord.cfg", workers=4)
    res = ctx.tlc("FirstRecord", "MC_FirstRecord_AsCoded.cfg", workers=4, expect_violation=True, tag="first_ascoded", count=False)
    if "EmptyOnlyIfEmpty" not in res["violations"]:
        raise Machinery("the first-record select as it was coded no longer violates EmptyOnlyIfEmpty: model drifted")
    ctx.build(race=True)
    gates = kernel.tlc_gen(ctx, "GenPipeline", "GenPipeline_quick.cfg" if quick else "GenPipeline.cfg", timeout=3000)
    gate_inproc = [dict(g, fam="pipe", sig=g["cmd"]) for g in gates if g["cmd"] != "topa"]
    gate_topa = [g for g in gates if g["cmd"] == "topa"]
    vecs = list(gate_inproc)
    for cmd in CMDS:
        for t in (2, 3):
            for js in range(2 if quick else 6):
                vecs.append({"id": "jit6-%s-%d-%d" % (cmd, t, js), "fam": "pipe", "sig": cmd, "cmd": cmd, "N": 6, "T": t,
                             "mode": "jitter", "jseed": ctx.seed * 100 + js + 1})
        for n in ([60] if quick else [50, 200, 400]):
            for t in ([1, 4, 16] if quick else [1, 2, 3, 4, 8, 16]):
                vecs.append({"id": "jit%d-%s-%d" % (n, cmd, t), "fam": "pipe", "sig": cmd, "cmd": cmd, "N": n, "T": t,
                             "mode": "jitter", "jseed": ctx.seed * 1000 + n + t})
    # updown topranking with fasta targets: getLines workers -> reorderRecords; imposed late deliveries, repeated (map order)
    for order in ([1, 2, 3, 4, 0], [2, 3, 4, 1, 0], [4, 3, 2, 1, 0], [1, 0, 3, 2, 4]):
        for rep in range(3 if quick else 10):
            vecs.append({"id": "toprank-gate-%s-%d" % ("".join(map(str, order)), rep), "fam": "pipe", "sig": "toprank", "cmd": "toprankgate",
                         "N": 5, "T": 1, "mode": "gate", "order": order})
    for rep in range(2 if quick else 8):
        vecs.append({"id": "toprank-jit-%d" % rep, "fam": "pipe", "sig": "toprank", "cmd": "toprankgate", "N": 40, "T": 1,
                     "mode": "jitter", "jseed": ctx.seed * 77 + rep})
    # one record delivered after more than a thousand later ones (a writer that parks early arrivals in anything but an
    # unbounded map has a size at which it must grow or stall)
    late = 1301
    for cmd in ["udlist", "snps", "variants", "toma"]:
        for k in ([5] if quick else [0, 5, 700]):
            order = [i for i in range(late) if i != k] + [k]
            vecs.append({"id": "late-%s-%d-of-%d" % (cmd, k, late), "fam": "pipe", "sig": cmd, "cmd": cmd, "N": late, "T": 4, "mode": "gate",
                         "order": order})
    # the fan-out commands: the per-query goroutines report to Main in every order (3 queries: all 6; thorough also 4: all 24)
    import itertools
    for cmd in pipetrace.FANOUT:
        for n in ([3] if quick else [3, 4]):
            for order in itertools.permutations(range(n)):
                vecs.append({"id": "fanout-%s-%s" % (cmd, "".join(map(str, order))), "fam": "pipe", "sig": cmd, "cmd": cmd, "N": n, "T": 2,
                             "mode": "gate", "order": list(order)})
    obs = kernel.run_vectors(ctx, "pipe", vecs, tag="pipe")
    rows = read_ndjson(obs)
    skipped = []
    for r in rows:
        if r["obs"].get("refrun_failed"):
            raise Machinery("reference run failed for %s: %s" % (r["id"], r["obs"].get("err")))
        if r["obs"].get("unrealised", 0) > 0 and r["vec"].get("mode") == "gate":
            if r["vec"]["cmd"] in ("samvar", "topa"):
                # two worker stages: the hook gates the last stage only, so an order that needs a particular
                # stage-1 hand-off order as well may not be realisable this way; counted, not judged
                skipped.append(r["id"])
                continue
            raise Machinery("schedule %s could not be imposed on the real worker pool (gate timed out)" % r["id"])
    # (1) traces of the small runs against the specification
    small = [r for r in rows if r["id"] not in skipped and r["vec"]["cmd"] in pipetrace.TOPO and r["vec"]["N"] <= 6 and not r["obs"].get("timeout") and not r["obs"].get("panic")]
    rejected = pipetrace.validate_traces(ctx, small)
    fan = [r for r in rows if r["vec"]["cmd"] in pipetrace.FANOUT and r["vec"]["N"] == 3 and not r["obs"].get("timeout") and not r["obs"].get("panic")]
    rejected += pipetrace.validate_fanout_traces(ctx, fan)
    for r, why in rejected:
        ctx.add_failure("trace-rejected", r["vec"]["sig"], r["id"], {"vec": r["vec"], "why": why, "observed": r["obs"], "family": "pipe"})
    # (1b) the pipeline runs performed by the repository's own tests, as traces (their assertions only compare outputs)
    for r, why in repotests.validate(ctx):
        ctx.add_failure("trace-rejected", "repository-test:" + r["vec"]["cmd"], r["id"], {"vec": r["vec"], "why": why, "events": r["obs"]["events"][:60]})
    # (2) outputs of all runs
    fails = kernel.validate_obs(ctx, "ObsC12", "ObsC12.cfg", obs, tag="pipe")[1]
    # (3) the binary
    cvecs = cli_vectors(ctx, gate_topa if not quick else gate_topa[:6])
    cobs = kernel.run_vectors(ctx, "cli", cvecs, tag="cli", jobs=4)
    crows, cfails, _ = kernel.validate_obs(ctx, "ObsC12", "ObsC12.cfg", cobs, tag="cli")
    for r in crows:
        if r["vec"]["id"].startswith("topa-gate") and any(x.get("timeout") for x in r["obs"].get("runs", [])):
            raise Machinery("gated toPairAlign run timed out: %s" % r["id"])
    # (4) race detector on the in-process pipelines
    # quick: a few jittered runs of every command under the race detector; thorough: 80 of them + the -race binary
    racevecs = [v for v in vecs if v["N"] <= 60 and v.get("mode") == "jitter"]
    race_check(ctx, racevecs[:80] if not quick else [v for v in racevecs if v["N"] == 6][:14] + [v for v in racevecs if v["N"] > 6][:8])
    reordered = 0
    for r in rows:
        ctx.evaluations += 1
        if r["obs"].get("reordered", 0) > 0:
            reordered += 1
            ctx.nontrivial.add(r["id"])
    ctx.evaluations += len(crows)
    for r in crows:
        if r["vec"]["reps"] > 1 or "base" in r["vec"]:
            ctx.nontrivial.add(r["id"])
    ctx.extra["runs_with_out_of_order_delivery"] = reordered
    ctx.extra["two_stage_orders_not_realisable_by_last_stage_gate"] = len(skipped)
    ctx.extra["delivery_orders_imposed"] = len(gate_inproc) + len(gate_topa if not quick else gate_topa[:6])
    ctx.samples = [kernel.trim(small[0]) if small else "(none)", kernel.trim({"vec_id": crows[0]["id"], "obs": crows[0]["obs"]})]
    ctx.assumptions = ["the data-race clause is decided by the Go race detector on the same replays (thorough tier), not by TLA+ (DESIGN.md section 8)",
                       "snps / updown list / closest size their pools with runtime.NumCPU(): the model uses min(NumCPU, N) workers",
                       "gated schedules come from the model; a schedule the real pool cannot realise within the gate deadline is a machinery failure (exit 2)"]


def race_check(ctx, vecs):
    """Re-run in-process vectors with a -race build of the harness; any report is a violation."""
    import subprocess
    from ..common import HARNESS, goenv, write_ndjson
    env = goenv()
    env["CGO_ENABLED"] = "1"
    binp = ctx.vharness + "-race"
    p = subprocess.run(["go", "build", "-race", "-tags", "verif", "-o", binp, "."], cwd=getattr(ctx, "harness_src", HARNESS), env=env,
                       stdout=subprocess.PIPE, stderr=subprocess.STDOUT, text=True)
    if p.returncode != 0:
        raise Machinery("race build of the harness failed:\n" + p.stdout[-2000:])
    vin, vout = ctx.path("race_in.ndjson"), ctx.path("race_out.ndjson")
    write_ndjson(vin, vecs)
    racelog = ctx.path("race.log")
    env["VERIF_RACE_LOG"] = racelog
    env["VERIF_GOFASTA"] = ctx.gofasta
    env["VERIF_WORK"] = ctx.work
    p = subprocess.run([binp, "run", "pipe", vin, vout, "-j", "4"], cwd=ctx.work, env=env, stdout=subprocess.PIPE,
                       stderr=subprocess.PIPE, text=True, timeout=3000)
    if p.returncode != 0:
        raise Machinery("race harness failed: " + p.stderr[-2000:])
    n = 0
    if os.path.exists(racelog):
        txt = open(racelog).read()
        n = txt.count("WARNING: DATA RACE")
        if n:
            ctx.add_failure("data-race", "in-process", "race-harness", {"report": txt[:3000]})
    ctx.extra["race_detector_runs"] = len(vecs)
    ctx.extra["race_reports"] = n
    log("race detector: %d runs, %d reports" % (len(vecs), n))
