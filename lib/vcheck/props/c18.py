"""C18 - invalid or inconsistent input is refused with a non-zero exit, never silently."""
from .. import kernel, pipetrace
from ..common import Machinery, log, read_ndjson
from ..inputs import REF, fasta, genbank, mutate, sam

N = 5


def recs(n=N, prefix="q"):
    return [("%s%d" % (prefix, i), mutate(REF, i)) for i in range(n)]


def corrupt(rs, k, how):
    rs = list(rs)
    name, seq = rs[k]
    if how == "short":
        seq = seq[:-1]
    elif how == "long":
        seq = seq + "A"
    elif how == "badsym":
        seq = seq[:7] + "Z" + seq[8:]
    elif how == "digit":
        seq = seq[:7] + "1" + seq[8:]
    elif how == "cr":
        seq = seq[:7] + "\r" + seq[8:]       # a carriage return that is not part of a line end
    elif how == "ctrl":
        seq = seq[:7] + "\x1f" + seq[8:]
    rs[k] = (name, seq)
    return rs


def samrecs(n=N):
    return [("q%d" % i, 0, 0, "%dM" % len(REF), mutate(REF, i)) for i in range(n)]


BASE = {
    "ref.fa": fasta([("ref", REF)]), "m.fa": fasta(recs()), "t.fa": fasta(recs(prefix="t")),
    "m.fasta": fasta(recs()), "t.fasta": fasta(recs(prefix="t")), "a.gb": genbank(), "a.txt": genbank(),
    "in.sam": sam(samrecs()),
}
CMDS = {
    "snps": ["snps", "-r", "@ref.fa", "-q", "@m.fa"],
    "udlist": ["updown", "list", "-r", "@ref.fa", "-q", "@m.fa"],
    "variants": ["variants", "--msa", "@m.fa", "-a", "@a.gb"],
    "closest": ["closest", "--query", "@m.fa", "--target", "@t.fa"],
    "closestn": ["closest", "-n", "2", "--query", "@m.fa", "--target", "@t.fa"],
    "toprank": ["updown", "topranking", "-q", "@m.fasta", "-t", "@t.fasta", "-r", "@ref.fa", "--size-total", "4"],
    "toma": ["sam", "toMultiAlign", "-s", "@in.sam"],
    "topa": ["sam", "toPairAlign", "-s", "@in.sam", "-r", "@ref.fa", "-o", "stdout"],
    "samvar": ["sam", "variants", "-s", "@in.sam", "-r", "@ref.fa", "-a", "@a.gb"],
}
# which files of each command are FASTA alignments (records at k can be corrupted) / single-record references
ALIGN = {"snps": ["m.fa"], "udlist": ["m.fa"], "variants": ["m.fa"], "closest": ["m.fa", "t.fa"], "closestn": ["m.fa", "t.fa"],
         "toprank": ["m.fasta", "t.fasta"]}
REFS = {"snps": ["ref.fa"], "udlist": ["ref.fa"], "toprank": ["ref.fa"], "topa": ["ref.fa"], "samvar": ["ref.fa"]}
INPUTS = {"snps": ["ref.fa", "m.fa"], "udlist": ["ref.fa", "m.fa"], "variants": ["m.fa", "a.gb"], "closest": ["m.fa", "t.fa"],
          "closestn": ["m.fa", "t.fa"], "toprank": ["m.fasta", "t.fasta", "ref.fa"], "toma": ["in.sam"], "topa": ["in.sam", "ref.fa"],
          "samvar": ["in.sam", "ref.fa", "a.gb"]}


def scenarios(thorough):
    out = []

    def add(kind, cmd, files=None, args=None, tag=""):
        f = {k: {"text": v} for k, v in BASE.items()}
        for k, v in (files or {}).items():
            if v is None:
                f.pop(k, None)
            else:
                f[k] = {"text": v}
        a = list(args or CMDS[cmd])
        out.append({"id": "%s/%s/%s" % (kind, cmd, tag), "fam": "cli", "sig": "%s:%s" % (kind, cmd), "files": f,
                    "args": a, "reps": 1, "deadline_s": 10})
        # the same scenario writing to a file instead of stdout (the output is opened, and closed, by other code)
        if "-o" in a:
            i = a.index("-o")
            a2 = a[:i] + ["-o", "@outdir"] + a[i + 2:]
        else:
            a2 = a + ["-o", "@out.txt"]
        out.append({"id": "%s/%s/%s+outfile" % (kind, cmd, tag), "fam": "cli", "sig": "%s:%s" % (kind, cmd), "files": f,
                    "args": a2, "reps": 1, "deadline_s": 10})

    def texts(name):
        pre = "t" if name.startswith("t.") else "q"
        return recs(prefix=pre)

    positions = [0, N // 2, N - 1]
    for cmd, files in ALIGN.items():
        for fn in files:
            for k in positions:
                for how in (["short", "long"] if thorough else ["short"]):
                    add("unequal-rows", cmd, {fn: fasta(corrupt(texts(fn), k, how))}, tag="%s@%d%s" % (fn, k, how))
                for how in (["badsym", "digit", "cr", "ctrl"] if thorough else ["badsym", ["cr", "ctrl", "digit"][k % 3]]):
                    add("non-iupac", cmd, {fn: fasta(corrupt(texts(fn), k, how))}, tag="%s@%d%s" % (fn, k, how))
                # the same symbol in a folded file: on the second line of its record (the lines of a record need not be read alike)
                add("non-iupac", cmd, {fn: fasta(corrupt(texts(fn), k, "badsym"), wrap=5)}, tag="%s@%dwrapped" % (fn, k))
    for cmd, files in REFS.items():
        for fn in files:
            add("non-iupac", cmd, {fn: fasta(corrupt([("ref", REF)], 0, "badsym"))}, tag=fn)
            add("non-iupac", cmd, {fn: fasta(corrupt([("ref", REF)], 0, "badsym"), wrap=5)}, tag=fn + "-wrapped")
            add("two-reference-records", cmd, {fn: fasta([("ref", REF), ("ref2", REF)])}, tag=fn)
    for cmd, files in INPUTS.items():
        for fn in files:
            add("missing-file", cmd, {fn: None}, tag=fn)
            if not fn.endswith(".gb"):
                kind = "empty-sam" if fn.endswith(".sam") else "empty-fasta"
                add(kind, cmd, {fn: ""}, tag=fn)
    # a header-less SAM is a documented/checked condition only where the header is needed: toMultiAlign takes the
    # reference length from @SQ; toPairAlign and sam variants take it from --reference and convert such a file correctly
    add("headerless-sam", "toma", {"in.sam": sam(samrecs(), header=False)})
    for cmd in ("toma", "topa", "samvar"):
        add("blank-sam", cmd, {"in.sam": "\n"})
    short_ref = fasta([("ref", REF[:-2])])
    long_ref = fasta([("ref", REF + "AC")])
    for cmd in ("snps", "udlist", "toprank"):
        add("reference-width", cmd, {"ref.fa": short_ref})
        add("reference-width", cmd, {"ref.fa": long_ref}, tag="alignment-narrower")
    add("reference-width", "variants", {"m.fa": fasta([(n, s[:-2]) for n, s in recs()])})
    add("reference-width", "variants", {"m.fa": fasta([("ref", REF)] + [(n, s + "A") for n, s in recs()])},
        args=["variants", "--msa", "@m.fa", "--reference", "ref", "-a", "@a.gb"], tag="ref-in-msa")
    add("reference-width", "variants", {"m.fa": fasta([("ref", REF + "AC")] + [(n, s + "AC") for n, s in recs()])},
        args=["variants", "--msa", "@m.fa", "--reference", "ref", "-a", "@a.gb"], tag="alignment-longer-than-annotation")
    for cmd in ("closest", "closestn"):
        add("query-target-width", cmd, {"t.fa": fasta([(n, s[:-2]) for n, s in recs(prefix="t")])}, tag="shorter")
        add("query-target-width", cmd, {"t.fa": fasta([(n, s + "AC") for n, s in recs(prefix="t")])}, tag="longer")
    tr = CMDS["toprank"]
    for bad, tag in (("", "empty"), ("a,b,c\n1,2,3\n", "not-updown-list"), ("query,SNPs\nq0,A1T\n", "wrong-header")):
        add("bad-csv", "toprank", {"q.csv": bad}, args=["updown", "topranking", "-q", "@q.csv", "-t", "@t.fasta", "-r", "@ref.fa", "--size-total", "4"], tag="query-" + tag)
        add("bad-csv", "toprank", {"t.csv": bad}, args=["updown", "topranking", "-q", "@m.fasta", "-t", "@t.csv", "-r", "@ref.fa", "--size-total", "4"], tag="target-" + tag)
    noq = "query,SNPs,ambiguities,SNPcount,ambcount\n"
    trq = ["updown", "topranking", "-q", "@q0.csv", "-t", "@t.fasta", "-r", "@ref.fa", "--size-total", "4"]
    add("unequal-rows", "toprank", {"q0.csv": noq, "t.fasta": fasta(corrupt(recs(prefix="t"), N - 1, "short"))}, args=trq, tag="no-query-rows")
    add("non-iupac", "toprank", {"q0.csv": noq, "t.fasta": fasta(corrupt(recs(prefix="t"), 0, "badsym"))}, args=trq, tag="no-query-rows")
    add("empty-fasta", "toprank", {"q0.csv": noq, "t.fasta": ""}, args=trq, tag="no-query-rows")
    add("bad-csv", "toprank", {"q0.csv": noq, "t.csv": "a,b,c\n1,2,3\n"}, args=trq[:4] + ["-t", "@t.csv"] + trq[6:], tag="no-query-rows")
    L = len(REF)
    for cmd in ("toma", "topa"):
        for w, tag in ((["--start", "0"], "start0"), (["--start", str(L + 1)], "start>len"), (["--end", "0"], "end0"),
                       (["--end", str(L + 1)], "end>len"), (["--start", "9", "--end", "8"], "start>end")):
            add("bad-window", cmd, args=CMDS[cmd] + w, tag=tag)
            if cmd == "toma":       # with --pad the window is applied by a different code path
                add("bad-window", cmd, args=CMDS[cmd] + w + ["--pad"], tag=tag + "+pad")
                add("bad-window", cmd, args=CMDS[cmd] + w + ["--pad", "-t", "3", "-w", "10"], tag=tag + "+pad+wrap")
    # the window under its former spelling (hidden, still accepted): --trimstart / --trimend, with and without --trim
    # (0-based, half open: --trimstart s is --start s+1, --trimend e is --end e)
    for w, tag in ((["--trimstart", str(L)], "trimstart=len"), (["--trimstart", str(L + 1)], "trimstart>len"), (["--trimend", "0"], "trimend0"),
                   (["--trimend", str(L + 1)], "trimend>len"), (["--trimstart", "9", "--trimend", "8"], "trimstart>trimend")):
        add("bad-window", "toma", args=CMDS["toma"] + w, tag=tag)
        add("bad-window", "toma", args=CMDS["toma"] + ["--trim"] + w, tag=tag + "+trim")
        add("bad-window", "toma", args=CMDS["toma"] + w + ["--pad"], tag=tag + "+pad")
    add("annotation-suffix", "variants", args=["variants", "--msa", "@m.fa", "-a", "@a.txt"])
    add("annotation-suffix", "samvar", args=["sam", "variants", "-s", "@in.sam", "-r", "@ref.fa", "-a", "@a.txt"])
    add("no-size-or-dist", "toprank", args=[a for a in tr if a not in ("--size-total", "4")])
    return out


def run(ctx):
    quick = ctx.quick
    ctx.rule = ("TLC model-checks every reader / worker / header fault at every record in every pipeline topology and in the fan-out topology: "
                "Main returns the error, never nil, and terminates (ErrReported, Termination, DoneOK); the scenario table (documented condition x "
                "command x input file x record position first/middle/last) is run against the binary; in-process runs with a bad record at every "
                "position are trace-validated; non-trivial = a scenario, distinct by (kind, command, file, position)")
    ctx.tlc("MCPipeline", "MC_Pipeline.cfg" if quick else "MC_Pipeline_thorough.cfg", workers=16, timeout=3000)
    ctx.tlc("Fanout", "MC_Fanout.cfg", workers=8)
    res = ctx.tlc("MCPipeline", "MC_Pipeline_HdrAsCoded.cfg", workers=8, expect_violation=True, tag="hdrascoded", count=False)
    if "<temporal>" not in res["violations"]:
        raise Machinery("plain header receive no longer deadlocks in the model: model drifted")
    ctx.extra["header_handoff_deadlock_counterexample_found"] = True
    ctx.build()
    sc = scenarios(not quick)
    cobs = kernel.run_vectors(ctx, "cli", sc, tag="cli", jobs=16)
    crows, _, _ = kernel.validate_obs(ctx, "ObsC18", "ObsC18.cfg", cobs, tag="cli")
    npanic = sum(1 for r in crows if any(x.get("panicked") for x in r["obs"].get("runs", [])))
    ctx.extra["scenarios"] = len(crows)
    ctx.extra["scenarios_ending_in_go_panic"] = npanic
    # in-process: a bad record at every position, traces against the specification
    vecs = []
    for cmd in ["toma", "samvar", "variants", "snps", "udlist"]:
        for k in range(4):
            for t in (1, 2):
                vecs.append({"id": "badrec-%s-%d-t%d" % (cmd, k, t), "fam": "pipe", "sig": "bad-record:" + cmd, "cmd": cmd, "N": 4, "T": t,
                             "mode": "badrec", "badat": k})
    # the same with the records in front of the bad one delivered to the writer in every other order (early arrivals parked
    # in the re-ordering buffer when the error comes)
    import itertools
    for cmd in ["toma", "samvar", "variants", "snps", "udlist"]:
        for k in (2, 3):
            for oi, order in enumerate(itertools.permutations(range(k))):
                if list(order) == list(range(k)) or (quick and (oi + ctx.seed) % 2):
                    continue
                vecs.append({"id": "badrec-%s-%d-order%s" % (cmd, k, "".join(map(str, order))), "fam": "pipe", "sig": "bad-record:" + cmd,
                             "cmd": cmd, "N": 4, "T": 4, "mode": "gate", "order": list(order), "badat": k})
    obs = kernel.run_vectors(ctx, "pipe", vecs, tag="badrec")
    prows, _, _ = kernel.validate_obs(ctx, "ObsC18", "ObsC18.cfg", obs, tag="badrec")
    ok = [r for r in prows if not r["obs"].get("timeout") and not r["obs"].get("panic") and not r["obs"].get("refrun_failed")]
    for r, why in pipetrace.validate_traces(ctx, ok):
        ctx.add_failure("trace-rejected", r["vec"]["sig"], r["id"], {"vec": r["vec"], "why": why, "observed": r["obs"], "family": "pipe"})
    ctx.evaluations = len(crows) + len(prows)
    for r in crows + prows:
        ctx.nontrivial.add(r["id"])
    ctx.samples = [kernel.trim({"id": crows[0]["id"], "args": crows[0]["vec"]["args"], "obs": crows[0]["obs"]}), kernel.trim(prows[0])]
    ctx.assumptions = ["a Go panic (exit status 2) satisfies 'non-zero exit'; the number of scenarios ending that way is reported in coverage",
                       "'promptly' = within 10 s on these 5-record inputs",
                       "only conditions the statement lists are exercised; a header-only updown-list CSV is not (the statement says 'empty')"]
