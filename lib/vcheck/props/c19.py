"""C19 - a failed output write is never reported as success."""
from .. import kernel, pipetrace
from ..common import Machinery, log, read_ndjson
from ..inputs import REF, mutate, sam

PIPE = ["toma", "tomawrap", "samvar", "variants", "snps", "udlist"]
POST = ["closest", "closestn", "closestd", "closestntable", "toprank", "topranktable"]

CLI = {  # command -> (args, outfile flag position handled by "@OUT")
    "toma": ["sam", "toMultiAlign", "-s", "@in.sam", "-o", "@OUT"],
    "samvar": ["sam", "variants", "-s", "@in.sam", "-r", "@ref.fa", "-a", "@a.gb", "-o", "@OUT"],
    "variants": ["variants", "--msa", "@m.fa", "-a", "@a.gb", "-o", "@OUT"],
    "variants-agg": ["variants", "--msa", "@m.fa", "-a", "@a.gb", "--aggregate", "-o", "@OUT"],
    "snps": ["snps", "-r", "@ref.fa", "-q", "@m.fa", "-o", "@OUT"],
    "snps-agg": ["snps", "-r", "@ref.fa", "-q", "@m.fa", "--aggregate", "-o", "@OUT"],
    "udlist": ["updown", "list", "-r", "@ref.fa", "-q", "@m.fa", "-o", "@OUT"],
    "closest": ["closest", "--query", "@m.fa", "--target", "@m.fa", "-o", "@OUT"],
    "closestn": ["closest", "-n", "2", "--query", "@m.fa", "--target", "@m.fa", "-o", "@OUT"],
    "closestntable": ["closest", "-n", "2", "--table", "--query", "@m.fa", "--target", "@m.fa", "-o", "@OUT"],
    "toprank": ["updown", "topranking", "-q", "@m.fasta", "-t", "@m.fasta", "-r", "@ref.fa", "--size-total", "4", "-o", "@OUT"],
    "topranktable": ["updown", "topranking", "-q", "@m.fasta", "-t", "@m.fasta", "-r", "@ref.fa", "--size-total", "4", "--table", "-o", "@OUT"],
}
FILES = {"in.sam": {"kind": "pipe-sam", "N": 3}, "ref.fa": {"kind": "pipe-ref"}, "m.fa": {"kind": "pipe-msa", "N": 3},
         "m.fasta": {"kind": "pipe-msa", "N": 3}, "a.gb": {"kind": "pipe-gb"}}


def run(ctx):
    quick = ctx.quick
    n = 3 if quick else 5
    ctx.rule = ("TLC model-checks every write fault (k-th Write call, k = 1..all) in every pipeline topology: Main never returns nil after a failed "
                "write (DoneOK, ErrReported); for each command a counting run gives the number W of Write calls, then a failing io.Writer fails "
                "exactly the k-th call for every k in 1..W (in-process, traces validated against the spec for the pipeline commands); the binary "
                "is run with the output on /dev/full and under strace fault injection at every k; non-trivial = a run in which the injected fault fired")
    ctx.tlc("MCPipeline", "MC_Pipeline.cfg" if quick else "MC_Pipeline_thorough.cfg", workers=16, timeout=3000)
    ctx.tlc("Fanout", "MC_Fanout.cfg", workers=8)
    res = ctx.tlc("Fanout", "MC_Fanout_AsCoded.cfg", workers=4, expect_violation=True, tag="fanout_ascoded", count=False)
    if "DoneOK" not in res["violations"]:
        raise Machinery("Fanout with ignored row-write errors no longer violates DoneOK: model drifted")
    ctx.build()
    # phase 1: count the writes of each command
    count = [{"id": "count-%s" % c, "fam": "pipe", "sig": c, "cmd": c, "N": n, "T": 2, "mode": "plain"} for c in PIPE + POST]
    rows = read_ndjson(kernel.run_vectors(ctx, "pipe", count, tag="count"))
    vecs = []
    for r in rows:
        if r["obs"].get("refrun_failed") or r["obs"].get("timeout") or r["obs"].get("panic"):
            raise Machinery("counting run failed for %s: %s" % (r["id"], r["obs"]))
        w = r["obs"]["nwrites_ref"]
        c = r["vec"]["cmd"]
        for k in range(1, w + 1):
            for t in ([2] if quick else [1, 3]):
                vecs.append({"id": "wfail-%s-%d-t%d" % (c, k, t), "fam": "pipe", "sig": c, "cmd": c, "N": n, "T": t, "mode": "wfail", "failk": k})
    # the same faults under every other delivery order of the records (the model's WriteFault is enabled in every
    # interleaving; a writer that parks early arrivals has a second place - the drain loop - where a write can fail)
    import itertools
    gn = 3
    orders = [list(p) for p in itertools.permutations(range(gn)) if list(p) != list(range(gn))]
    for r in rows:
        c = r["vec"]["cmd"]
        if c not in pipetrace.TOPO:
            continue
        wg = r["obs"]["nwrites_ref"] if n == gn else None
        if wg is None:
            t = pipetrace.TOPO[c]
            wg = t["HdrWrites"] + gn * t["WritesPer"]
        for k in range(1, wg + 1):
            for oi, order in enumerate(orders):
                if quick and (oi + k + ctx.seed) % 2:
                    continue
                vecs.append({"id": "wfail-%s-%d-order%s" % (c, k, "".join(map(str, order))), "fam": "pipe", "sig": c, "cmd": c, "N": gn, "T": gn,
                             "mode": "gate", "order": order, "failk": k})
    # fan-out commands: every write fault with the per-query goroutines reporting in every other order
    frows = rows
    if n != gn:
        frows = read_ndjson(kernel.run_vectors(ctx, "pipe", [{"id": "count3-%s" % c, "fam": "pipe", "sig": c, "cmd": c, "N": gn, "T": 2, "mode": "plain"}
                                                            for c in pipetrace.FANOUT], tag="count3"))
    for r in frows:
        c = r["vec"]["cmd"]
        if c not in pipetrace.FANOUT:
            continue
        for k in range(1, r["obs"]["nwrites_ref"] + 1):
            for oi, order in enumerate(orders):
                if quick and (oi + k + ctx.seed) % 3:
                    continue
                vecs.append({"id": "wfail-%s-%d-order%s" % (c, k, "".join(map(str, order))), "fam": "pipe", "sig": c, "cmd": c, "N": gn, "T": 2,
                             "mode": "gate", "order": order, "failk": k})
    obs = kernel.run_vectors(ctx, "pipe", vecs, tag="wfail")
    wrows, fails, _ = kernel.validate_obs(ctx, "ObsC19", "ObsC19.cfg", obs, tag="wfail")
    fired = 0
    for r in wrows:
        ctx.evaluations += 1
        if r["obs"].get("wfailed", 0) > 0:
            fired += 1
            ctx.nontrivial.add(r["id"])
    if fired < len(wrows) * 0.9:
        raise Machinery("the injected write fault fired in only %d of %d runs" % (fired, len(wrows)))
    # traces of the pipeline commands (fault = wr at k) against the specification
    traced = [r for r in wrows if r["vec"]["cmd"] in pipetrace.TOPO and r["obs"].get("wfailed", 0) > 0
              and not r["obs"].get("timeout") and not r["obs"].get("panic")]
    for r, why in pipetrace.validate_traces(ctx, traced):
        ctx.add_failure("trace-rejected", r["vec"]["sig"], r["id"], {"vec": r["vec"], "why": why, "observed": r["obs"], "family": "pipe"})
    ftraced = [r for r in wrows if r["vec"]["cmd"] in pipetrace.FANOUT and r["vec"]["N"] == 3 and r["obs"].get("wfailed", 0) > 0
               and not r["obs"].get("timeout") and not r["obs"].get("panic")]
    for r, why in pipetrace.validate_fanout_traces(ctx, ftraced):
        ctx.add_failure("trace-rejected", r["vec"]["sig"], r["id"], {"vec": r["vec"], "why": why, "observed": r["obs"], "family": "pipe"})
    # the binary: /dev/full and strace
    cvecs = []
    for c, args in CLI.items():
        a = [x if x != "@OUT" else "/dev/full" for x in args]
        cvecs.append({"id": "devfull-" + c, "fam": "cli", "sig": c.split("-")[0], "files": FILES, "args": a, "reps": 1})
    isam = dict(FILES)
    isam["indel.sam"] = {"text": sam([("q%d" % i, 0, 0, "10M2I8M3D%dM" % (len(REF) - 21), mutate(REF, i)[:10] + "TT" + mutate(REF, i)[10:18] + mutate(REF, i)[21:]) for i in range(3)])}
    for which, a in (("insertions", ["--insertions-out", "/dev/full", "--deletions-out", "@del.txt"]), ("deletions", ["--insertions-out", "@ins.txt", "--deletions-out", "/dev/full"])):
        cvecs.append({"id": "devfull-samindels-" + which, "fam": "cli", "sig": "samindels", "files": isam, "reps": 1,
                      "args": ["sam", "indels", "-s", "@indel.sam", "--threshold", "1"] + a})
    nq = dict(FILES)
    nq["q0.csv"] = {"text": "query,SNPs,ambiguities,SNPcount,ambcount\n"}
    for tab in ([], ["--table"]):
        cvecs.append({"id": "devfull-toprank-noqueries" + ("-table" if tab else ""), "fam": "cli", "sig": "toprank", "files": nq, "reps": 1,
                      "args": ["updown", "topranking", "-q", "@q0.csv", "-t", "@m.fasta", "-r", "@ref.fa", "--size-total", "4"] + tab + ["-o", "/dev/full"]})
    for c in ("toma", "snps", "snps-agg", "udlist", "closest", "closestntable", "toprank", "variants"):
        a = [x for x in CLI[c] if x not in ("-o", "@OUT")]
        cvecs.append({"id": "closedpipe-" + c, "fam": "cli", "sig": c.split("-")[0], "files": FILES, "args": a, "reps": 1, "stdout_mode": "closed"})
    cvecs.append({"id": "closedpipe-topa", "fam": "cli", "sig": "topa", "files": FILES, "args": ["sam", "toPairAlign", "-s", "@in.sam", "-r", "@ref.fa", "-o", "stdout"],
                  "reps": 1, "stdout_mode": "closed"})
    # toPairAlign writes by itself: stdout and one file per query
    topa = ["sam", "toPairAlign", "-s", "@in.sam", "-r", "@ref.fa"]
    kmax = 12 if quick else 12
    for k in range(1, kmax + 1):
        cvecs.append({"id": "strace-topa-stdout-%d" % k, "fam": "cli", "sig": "topa", "files": FILES, "args": topa + ["-o", "stdout"],
                      "stdout_file": "out.txt", "strace": {"file": "out.txt", "k": k}, "reps": 1, "base": {"args": topa + ["-o", "stdout"]}})
    for k in range(1, 5):
        cvecs.append({"id": "strace-topa-dir-%d" % k, "fam": "cli", "sig": "topa", "files": FILES, "args": topa + ["-o", "@outdir"],
                      "strace": {"file": "outdir/q1.fasta", "k": k}, "reps": 1, "outfile": "outdir/q1.fasta",
                      "base": {"args": topa + ["-o", "@outdir"]}})
    for c in (["snps", "closest", "toprank"] if quick else list(CLI)):
        args = CLI[c]
        for k in range(1, 4 if quick else 8):
            a = [x if x != "@OUT" else "@out.csv" for x in args]
            cvecs.append({"id": "strace-%s-%d" % (c, k), "fam": "cli", "sig": c.split("-")[0], "files": FILES, "args": a,
                          "strace": {"file": "out.csv", "k": k}, "reps": 1, "outfile": "out.csv", "base": {"args": a}})
    cobs = kernel.run_vectors(ctx, "cli", cvecs, tag="cli", jobs=8)
    crows = read_ndjson(cobs)
    # a strace fault beyond the last write never fires: such runs exit 0 legitimately and are dropped, counted
    keep, unreached = [], 0
    for r in crows:
        # an ENOSPC-failed write(2) writes nothing: if the output equals the fault-free output the fault never fired
        if "strace" in r["vec"] and r["obs"].get("runs") and all(x["exit"] == 0 and x["same_as_base"] for x in r["obs"]["runs"]) \
                and r["obs"].get("outlen", 0) > 0 and r["obs"].get("base_exit") == 0:
            unreached += 1
            continue
        keep.append(r)
    from ..common import write_ndjson
    kept = ctx.path("obs_cli_kept.ndjson")
    write_ndjson(kept, keep)
    kernel.validate_obs(ctx, "ObsC19", "ObsC19.cfg", kept, tag="cli")
    ctx.evaluations += len(keep)
    for r in keep:
        ctx.nontrivial.add(r["id"])
    ctx.extra["strace_faults_beyond_last_write"] = unreached
    ctx.extra["write_faults_fired_in_process"] = fired
    ctx.samples = [kernel.trim(wrows[0]), kernel.trim({"id": keep[0]["id"], "args": keep[0]["vec"]["args"], "obs": keep[0]["obs"]})]
    ctx.assumptions = ["a Go panic or a non-zero exit both count as 'not success'",
                       "strace fault injection counts write(2) calls on the output file; the in-process failing io.Writer counts Write calls"]
