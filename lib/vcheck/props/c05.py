"""C05 - indels in reference coordinates, invariant under both-gap columns."""
from .. import samcommon, varcommon


def run(ctx):
    ctx.rule = varcommon.RULE
    varcommon.run(ctx, ["C05-"], rand_n=40 if ctx.quick else 800)
    samcommon.run_blocks(ctx, "C05-", 100 if ctx.quick else 1500)      # multi-record SAM blocks through sam variants
    ctx.assumptions = ["annotation consistent with the genome: every CDS ends in a stop codon of the reference, GenBank /translation and GFF phases are "
                       "computed from the same layout (GFF3 phase semantics)",
                       "reference rows use A/C/G/T; query symbols are upper-case IUPAC or '-'",
                       "an aa: record is positioned at its codon's first base; codons straddling a join are not judged for order / window membership"]
