"""C17 - the genetic code and nucleotide tables are sound and complete over IUPAC."""
from .. import varcommon
from ..common import read_ndjson


def run(ctx):
    ctx.rule = ("exhaustive: all 3375 IUPAC codons (dict / strict / lax translation), all 32 accepted characters "
                "(text+encoded complement, encode, decode, score), every other byte value, plus seeded random "
                "sequences for record-level complement/reverse-complement; non-trivial = a codon/char/sequence line")
    ctx.rule += ("; the translation in use: the amino acids that variants / sam variants report for genes on either strand, alone and "
                 "together in one run, against Translate on the codon read along the strand (clause C04-aa of ObsVariants)")
    # the tables as the variant callers use them (a cache or a strand mix-up between the table and its user shows only here)
    varcommon.run(ctx, ["C04-aa"])
    ctx.exhaustive = True
    ctx.build(gofasta=False)
    obs = ctx.path("obs.ndjson")
    ctx.harness(["dump-tables", obs])
    fails, _ = ctx.validate("ObsC17", "ObsC17.cfg", obs)
    rows = read_ndjson(obs)
    ctx.evaluations += len(rows)
    for r in rows:
        if r["kind"] in ("codon", "char", "seq", "transseq"):
            ctx.nontrivial.add(r["id"])
    ctx.samples = [rows[7], rows[3375 + 45], rows[-1]] + ctx.samples[:1]
    for f in fails:
        ctx.add_failure(f["clause"], f["signature"], f["id"], {"observed": rows[f["line"] - 1]})
    ctx.assumptions = ["the harness dumps the tables through the exported functions of pkg/alphabet, pkg/encoding, pkg/fastaio",
                       "keys of the codon dictionary outside the 3375 IUPAC codons are not judged (the statement is silent)"]
