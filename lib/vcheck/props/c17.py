"""C17 - the genetic code and nucleotide tables are sound and complete over IUPAC."""
from ..common import read_ndjson


def run(ctx):
    ctx.rule = ("exhaustive: all 3375 IUPAC codons (dict / strict / lax translation), all 32 accepted characters "
                "(text+encoded complement, encode, decode, score), every other byte value, plus seeded random "
                "sequences for record-level complement/reverse-complement; non-trivial = a codon/char/sequence line")
    ctx.exhaustive = True
    ctx.tlc("MCAlphabet", "MCAlphabet.cfg", workers=8)
    ctx.build(gofasta=False)
    obs = ctx.path("obs.ndjson")
    ctx.harness(["dump-tables", obs])
    fails, _ = ctx.validate("ObsC17", "ObsC17.cfg", obs)
    rows = read_ndjson(obs)
    ctx.evaluations = len(rows)
    for r in rows:
        if r["kind"] in ("codon", "char", "seq", "transseq"):
            ctx.nontrivial.add(r["id"])
    ctx.samples = [rows[7], rows[3375 + 45], rows[-1]]
    for f in fails:
        ctx.add_failure(f["clause"], f["signature"], f["id"], {"observed": rows[f["line"] - 1]})
    ctx.assumptions = ["the harness dumps the tables through the exported functions of pkg/alphabet, pkg/encoding, pkg/fastaio",
                       "keys of the codon dictionary outside the 3375 IUPAC codons are not judged (the statement is silent)"]
