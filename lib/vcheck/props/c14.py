"""C14 - GenBank and GFF3 descriptions give the same mutations."""
from .. import varcommon


def run(ctx):
    ctx.rule = varcommon.RULE
    varcommon.run(ctx, ["C14-"], rand_n=40 if ctx.quick else 800)
    ctx.assumptions = ["annotation consistent with the genome: every CDS ends in a stop codon of the reference, GenBank /translation and GFF phases are "
                       "computed from the same layout (GFF3 phase semantics)",
                       "reference rows use A/C/G/T; query symbols are upper-case IUPAC or '-'",
                       "an aa: record is positioned at its codon's first base; codons straddling a join are not judged for order / window membership"]
