"""C10 - updown list is a lossless summary of each sequence relative to the reference."""
from .. import udcommon


def run(ctx):
    ctx.rule = udcommon.RULE
    udcommon.run(ctx, "C10-", 60 if ctx.quick else 600)
    # "one row per sequence, in input order" for a long input whose rows reach the writer far out of order: one record held back
    # (gate hook) until 1,300 later ones have been taken - the output must be the single-threaded bytes
    from .. import kernel
    late = 1301
    vecs = []
    for k in ([5, 1100] if ctx.quick else [0, 5, 700, 1100, 1299]):
        vecs.append({"id": "late-udlist-%d-of-%d" % (k, late), "fam": "pipe", "sig": "udlist", "cmd": "udlist", "N": late, "T": 4, "mode": "gate",
                     "order": [i for i in range(late) if i != k] + [k]})
    obs = kernel.run_vectors(ctx, "pipe", vecs, tag="late")
    rows, _, _ = kernel.validate_obs(ctx, "ObsC12", "ObsC12.cfg", obs, tag="late")
    kernel.account(ctx, rows, lambda r: r["obs"].get("reordered", 0) > 0)
    ctx.assumptions = ["references of the topranking vectors are A/C/G/T (as the statement says); updown list is also run on IUPAC references",
                       "--threshold-pair values are multiples of 1/4 (exact in float32); either --dist-all or all three per-bin limits are given",
                       "C09 compares the four outputs byte for byte in the harness; agreement of the common output with the spec is C08's verdict"]
