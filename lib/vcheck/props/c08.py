"""C08 - updown topranking bins, ranks and limits neighbours exactly as specified."""
from .. import udcommon


def run(ctx):
    ctx.rule = udcommon.RULE
    # balance() for UNBOUNDED sizes: an inductive invariant discharged by Apalache (Init => IndInv; IndInv /\ Next => IndInv'),
    # of which EvenFill is a consequence; TLC checks the same machine from every vector in (0..3)^4 and that its result is
    # the Balance operator the rest of the specification (and the replay) uses
    ctx.tlc("MCBalanceInd", "MC_BalanceInd.cfg", workers=8, timeout=900)
    ctx.apalache("BalanceInd", "Init", "IndInv", 0)
    ctx.apalache("BalanceInd", "IndInit", "IndInv", 1)
    udcommon.run(ctx, "C08-", 60 if ctx.quick else 600)
    ctx.assumptions = ["references of the topranking vectors are A/C/G/T (as the statement says); updown list is also run on IUPAC references",
                       "--threshold-pair values are multiples of 1/4 (exact in float32); either --dist-all or all three per-bin limits are given",
                       "C09 compares the four outputs byte for byte in the harness; agreement of the common output with the spec is C08's verdict"]
