"""C08 - updown topranking bins, ranks and limits neighbours exactly as specified."""
from .. import udcommon


def run(ctx):
    ctx.rule = udcommon.RULE
    udcommon.run(ctx, "C08-", 60 if ctx.quick else 600)
    ctx.assumptions = ["references of the topranking vectors are A/C/G/T (as the statement says); updown list is also run on IUPAC references",
                       "--threshold-pair values are multiples of 1/4 (exact in float32); either --dist-all or all three per-bin limits are given",
                       "C09 compares the four outputs byte for byte in the harness; agreement of the common output with the spec is C08's verdict"]
