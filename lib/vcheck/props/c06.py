"""C06 - closest returns exactly the nearest targets under the documented total order."""
from .. import kernel
from ..common import Machinery


def nontrivial(r):
    v = r["vec"]
    return len(v["targets"]) >= 2


def collect(ctx):
    cfg = "MC_TopK.cfg" if ctx.quick else "MC_TopK_thorough.cfg"
    ctx.tlc("TopK", cfg, workers=8)
    # model fidelity: the as-coded NaN comparisons must exhibit the counterexample TLC predicted (DESIGN section 9, F7)
    res = ctx.tlc("TopK", "MC_TopK_AsCoded.cfg", workers=4, expect_violation=True, tag="ascoded", count=False)
    if "Refines" not in res["violations"]:
        raise Machinery("TopK AsCoded=TRUE no longer violates Refines: model drifted")
    ctx.extra["ascoded_counterexample_found"] = True
    ctx.build(gofasta=False)
    vecs = kernel.tlc_gen(ctx, "GenC06", "GenC06.cfg" if ctx.quick else "GenC06_thorough.cfg", timeout=1800)
    if ctx.quick:
        # one seed-dependent third of the enumeration per quick run (all of it in thorough)
        vecs = [v for k, v in enumerate(vecs) if (k + ctx.seed) % 3 == 0]
    # letter case must not change the order, under any measure (tn93's base frequencies are counted from the target as read):
    # all targets, only the first, only the last in lower case
    for k, v in enumerate(vecs):
        m = (k // 3 + ctx.seed) % 4
        if m == 1:
            v["lowt"] = True
        elif m == 2:
            v["lowts"] = [0]
        elif m == 3:
            v["lowts"] = [len(v["targets"]) - 1]
    vecs += kernel.rand_vectors(ctx, "closest6", 400 if ctx.quick else 5000)
    return kernel.run_vectors(ctx, "closest", vecs)


def run(ctx):
    ctx.rule = ("TLC model-checks the catchment machine against the declarative order for every sequence of <=3 (thorough 4) targets over "
                "distance {0,1,2,undefined} x completeness {1,2,3}, K in 0..3, D in {none,1}; the same sequences are rendered as real "
                "alignments (raw/snp/tn93, 1-2 queries, list and table output) and replayed; seeded random target sets (2-26 targets with "
                "duplicates, ties, ambiguity, all-N); non-trivial = at least two targets, distinct by canonical hash")
    obs = collect(ctx)
    rows, fails, _ = kernel.validate_obs(ctx, "ObsC06", "ObsC06.cfg", obs, tag="closest")
    kernel.account(ctx, rows, nontrivial)
    ctx.exhaustive = not ctx.quick
    ctx.assumptions = ["undefined-distance targets may be listed after every defined one when capacity is spare (the statement is silent)",
                       "tn93 ordering is judged only on the enumerated design, where tn93 is increasing in the number of (transversion) "
                       "differences and equal counts give identical inputs to the formula; random tn93 orderings are not judged",
                       "raw -d thresholds are thousandths, so a threshold equal to an occurring distance is the same double"]


def selftest(ctx):
    obs = collect(ctx)

    def swap_targets(rows):
        for i, r in enumerate(rows):
            for x in r["obs"]["rows"]:
                if len(x.get("tis", [])) >= 2 and r["vec"]["measure"] == "snp":
                    x["tis"][0], x["tis"][1] = x["tis"][1], x["tis"][0]
                    return i

    def drop_target(rows):
        for i, r in enumerate(rows):
            for x in r["obs"]["rows"]:
                if len(x.get("tis", [])) >= 2:
                    x["tis"].pop()
                    return i

    ok = kernel.selftest_corrupt(ctx, "ObsC06", "ObsC06.cfg", obs, [("swap_targets", swap_targets), ("drop_target", drop_target)])
    return 0 if ok else 1
