"""Shared Gen -> run -> Obs pass for updown list / topranking (C08, C09, C10)."""
import json

from . import kernel


def collect(ctx, rand_n):
    ctx.tlc("MCUpDown", "MC_UpDown.cfg" if ctx.quick else "MC_UpDown_thorough.cfg", workers=16, timeout=3000)
    ctx.tlc("MCAlphabet", "MCAlphabet.cfg", workers=8)
    ctx.build(gofasta=False)
    vecs = kernel.tlc_gen(ctx, "GenUpDown", "GenUpDown.cfg" if ctx.quick else "GenUpDown_thorough.cfg", timeout=3000)
    # the size x supply space is covered completely by MC_UpDown; the real code is replayed on a seed-dependent sample of it
    # (quick 1/16 of (0..2)^4 x (0..2)^4, thorough 1/10 of (0..3)^4 x (0..3)^4; about 0.1 s of TLC validation per vector)
    mod = 16 if ctx.quick else 10
    small = [v for v in vecs if not v["id"].startswith(("size-", "total-"))]
    big = [v for k, v in enumerate(v for v in vecs if v["id"].startswith(("size-", "total-"))) if (k + ctx.seed) % mod == 0]
    vecs = small + big
    vecs += kernel.rand_vectors(ctx, "updown", rand_n)
    vecs.append(wide_vector(ctx))
    extra = []
    for k, v in enumerate(vecs):
        if v["id"].startswith("randud-") and k % 5 == 0 and len(v["ref"]) > 6:
            v2 = json.loads(json.dumps(v))
            v2["id"] = v["id"] + "-iupacref"
            for j, sym in ((2, "-"), (len(v2["ref"]) // 2, "N"), (len(v2["ref"]) - 2, "R")):
                v2["ref"][j] = sym
            v2["wide"] = True          # judged for the agreement of the four input combinations only (C08 is stated for A/C/G/T references)
            extra.append(v2)
    vecs += extra
    return kernel.run_vectors(ctx, "updown", vecs, timeout=6000)


def wide_vector(ctx):
    """12,000 columns, one target with 10,500 SNPs (its `updown list` row is longer than 64 kB), in the middle of the file."""
    import random
    rng = random.Random(ctx.seed + 99)
    w = 12000
    nxt = {"A": "C", "C": "G", "G": "T", "T": "A"}
    ref = [rng.choice("ACGT") for _ in range(w)]

    def mut(src, sites):
        s = list(src)
        for p in sites:
            s[p] = nxt[s[p]]
        return s
    q1 = mut(ref, [10, 500, 9000])
    q2 = mut(ref, [10, 20, 30, 40, 11000])
    targets = [mut(ref, [10]), mut(q1, [7000]), mut(ref, rng.sample(range(w), 10500)), mut(ref, [10, 500]), list(ref), mut(q2, [5])]
    opts = {"sizetotal": 0, "sizeup": 0, "sizedown": 0, "sizeside": 0, "sizesame": 0, "distall": w, "distup": 0, "distdown": 0, "distside": 0,
            "push": 0, "nofill": False, "thrnum": 4, "thrden": 4, "thrtarget": 10000, "ignore": [], "table": True}
    return {"id": "wide-12000", "wide": True, "ref": ref, "queries": [q1, q2], "targets": targets, "opts": opts, "combos": True}


def nontrivial(r):
    top = r["obs"].get("top")
    if not top:
        return len(r["vec"]["targets"]) > 1
    return any(any(row.get(b) for b in ("same", "up", "down", "side")) or "ti" in row for row in top.get("rows", []))


def run(ctx, prefix, rand_n):
    obs = collect(ctx, rand_n)
    rows, fails, _ = kernel.validate_obs(ctx, "ObsUpDown", "ObsUpDown.cfg", obs, tag="updown", timeout=6000)
    ctx.failures = [f for f in ctx.failures if f["clause"].startswith(prefix) or f["clause"] in ("panic", "timeout")]
    kernel.account(ctx, rows, nontrivial)
    ctx.exhaustive = False      # the replay samples the size x supply space (the model check of balance() is exhaustive)
    return rows


RULE = ("TLC checks the tract scanner against Tracts (all rows over {same,snp,ambiguous} of length <=7/8, with the reconstruction theorem), balance() against the "
        "relational EvenFill for every requested/supplied size vector in (0..2)^4 (thorough (0..3)^4) x no-fill and every --size-total, and the push map "
        "against the k smallest distances; the same size/supply points are rendered as real alignments (targets of known bin, distance, ambiguity, "
        "interleaved in the file) and replayed on a seed-dependent sample (quick 1/16 of 14k points, thorough 1/10 of 134k), plus --dist limits, --dist-push 1..3, "
        "--threshold-pair 0..1, --threshold-target, --ignore, list and --table output, 1-3 queries, all four csv/fasta input combinations; seeded "
        "random alignments; non-trivial = at least one target reported")
