"""Shared Gen -> run -> Obs pass for updown list / topranking (C08, C09, C10)."""
from . import kernel


def collect(ctx, rand_n):
    ctx.tlc("MCUpDown", "MC_UpDown.cfg" if ctx.quick else "MC_UpDown_thorough.cfg", workers=16, timeout=3000)
    ctx.tlc("MCAlphabet", "MCAlphabet.cfg", workers=8)
    ctx.build(gofasta=False)
    vecs = kernel.tlc_gen(ctx, "GenUpDown", "GenUpDown.cfg" if ctx.quick else "GenUpDown_thorough.cfg", timeout=3000)
    # the size x supply space is covered completely by MC_UpDown; the real code is replayed on a seed-dependent sample of it
    # (quick 1/16 of (0..2)^4 x (0..2)^4, thorough 1/10 of (0..3)^4 x (0..3)^4; about 0.1 s of TLC validation per vector)
    mod = 16 if ctx.quick else 10
    small = [v for v in vecs if not v["id"].startswith(("size-", "total-"))]
    big = [v for k, v in enumerate(v for v in vecs if v["id"].startswith(("size-", "total-"))) if (k + ctx.seed) % mod == 0]
    vecs = small + big
    vecs += kernel.rand_vectors(ctx, "updown", rand_n)
    return kernel.run_vectors(ctx, "updown", vecs, timeout=6000)


def nontrivial(r):
    top = r["obs"].get("top")
    if not top:
        return len(r["vec"]["targets"]) > 1
    return any(any(row.get(b) for b in ("same", "up", "down", "side")) or "ti" in row for row in top.get("rows", []))


def run(ctx, prefix, rand_n):
    obs = collect(ctx, rand_n)
    rows, fails, _ = kernel.validate_obs(ctx, "ObsUpDown", "ObsUpDown.cfg", obs, tag="updown", timeout=6000)
    ctx.failures = [f for f in ctx.failures if f["clause"].startswith(prefix) or f["clause"] in ("panic", "timeout")]
    kernel.account(ctx, rows, nontrivial)
    ctx.exhaustive = False      # the replay samples the size x supply space (the model check of balance() is exhaustive)
    return rows


RULE = ("TLC checks the tract scanner against Tracts (all rows over {same,snp,ambiguous} of length <=7/8, with the reconstruction theorem), balance() against the "
        "relational EvenFill for every requested/supplied size vector in (0..2)^4 (thorough (0..3)^4) x no-fill and every --size-total, and the push map "
        "against the k smallest distances; the same size/supply points are rendered as real alignments (targets of known bin, distance, ambiguity, "
        "interleaved in the file) and replayed on a seed-dependent sample (quick 1/16 of 14k points, thorough 1/10 of 134k), plus --dist limits, --dist-push 1..3, "
        "--threshold-pair 0..1, --threshold-target, --ignore, list and --table output, 1-3 queries, all four csv/fasta input combinations; seeded "
        "random alignments; non-trivial = at least one target reported")
