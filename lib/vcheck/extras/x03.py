"""X03 - the GFF3 reader (pkg/gff, ReadGFF) against GffScan.tla.  An extension of the specification beyond the listed
properties (the GFF side of C14 goes through this reader)."""
from .. import kernel
from ..common import Machinery


def run(ctx):
    ctx.rule = ("TLC checks the reader machine (InFasta, StartFasta, Directive, Comment, Row with the header checks run at the first row, then the "
                "##FASTA section through the list reader of FastaScan) against the format's meaning for every file of <=4 lines over 22 line kinds "
                "(version / sequence-region directives valid and malformed, comments, valid CDS / gene rows with multi-valued attributes, rows with a "
                "bad phase, strand, start, field count, attribute list or sequence ID, ##FASTA, header and sequence lines, blank lines): well-formed "
                "files are read as the format says; the named deviations (version only checked when a row follows, blank lines, a trailing ';' and "
                "a '-' in the sequence ID refused) must still be found; every file of <=3 (thorough 4) lines plus longer files around the well-formed "
                "skeleton are read by gff.ReadGFF: error class, version, regions, features, attributes, ID map and FASTA records")
    ctx.tlc("MCGff", "MC_Gff.cfg", workers=16, timeout=1800)
    res = ctx.tlc("MCGff", "MC_Gff_deviations.cfg", workers=1, expect_violation=True, tag="deviations", count=False, extra=["-continue"])
    for inv in ("VersionAlways", "BlankTolerated", "TrailingSemicolon", "HyphenInSeqid"):
        if inv not in res["violations"]:
            raise Machinery("GffScan: the named deviation %s is no longer found by TLC: model drifted" % inv)
    ctx.build(gofasta=False)
    vecs = kernel.tlc_gen(ctx, "GenGff", "GenGff.cfg", timeout=3000)
    obs = kernel.run_vectors(ctx, "gffscan", vecs)
    rows, fails, _ = kernel.validate_obs(ctx, "ObsGff", "ObsGff.cfg", obs, tag="gffscan", timeout=6000)
    kernel.account(ctx, rows, lambda r: r["obs"]["err"] == "" and len(r["obs"]["feats"]) > 0)
    ctx.exhaustive = True
    ctx.assumptions = ["the error classes are read off the error text (gff.go keeps its error values private)",
                       "URL-escapes in attribute values and the Score column are not interpreted by the reader and not modelled"]
