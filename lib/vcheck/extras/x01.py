"""X01 - GenBank feature locations: the parser (pkg/genbank/location.go) against Location.tla.  An extension of the
specification beyond the listed properties (C04 and C14 rest on the positions a CDS location denotes)."""
from .. import kernel
from ..common import Machinery


def run(ctx):
    ctx.rule = ("TLC checks Parse (GetPositions transcribed branch by branch, refusals and index panics included) against the denotation Den for every "
                "location tree of depth <=2 with <=2 kids over 5 leaves (3 ranges, a single base, a partial range): accepted => positions = Den, every "
                "documented form accepted, strand = order of first/last position; the named deviations (partial range inside a nested operator read "
                "as nothing; single bases and bare ranges beside operators index out of range) must still be found by TLC; the same trees, 3-kid "
                "operators, long coordinates and depth-3 trees are rendered as text and replayed through genbank.Location; class, positions and "
                "IsReverse must be what the model says")
    ctx.tlc("MCLocation", "MC_Location.cfg", workers=8)
    res = ctx.tlc("MCLocation", "MC_Location_deviations.cfg", workers=1, expect_violation=True, tag="deviations", count=False, extra=["-continue"])
    for inv in ("NoSilentLoss", "NoPanic"):
        if inv not in res["violations"]:
            raise Machinery("Location: the named deviation %s is no longer found by TLC: model drifted" % inv)
    ctx.build(gofasta=False)
    vecs = kernel.tlc_gen(ctx, "GenLocation", "GenLocation.cfg", timeout=1800)
    obs = kernel.run_vectors(ctx, "loc", vecs)
    rows, fails, _ = kernel.validate_obs(ctx, "ObsLocation", "ObsLocation.cfg", obs, tag="loc", timeout=3000)
    kernel.account(ctx, rows, lambda r: r["obs"]["class"] == "ok" and len(r["obs"]["pos"]) > 0)
    ctx.exhaustive = True
    ctx.assumptions = ["locations are modelled as trees; the text is produced by the specification (Text), so the parser's own splitting of the text into "
                       "fields is exercised by the replay, not by TLC", "order(), remote references (accession:a..b), a^b and 3'-partial markers are outside the model"]
