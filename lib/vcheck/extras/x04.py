"""X04 - `sam indels` (deprecated; outside C12) against SamIndels.tla.  An extension of the specification beyond the
listed properties."""
from .. import kernel


def run(ctx):
    ctx.rule = ("every I and D operation of every contributing record is one occurrence, pooled by (position, inserted bases) / (position, length), "
                "written when the pool has >= threshold members, rows in ascending position; the one-record CIGAR enumeration and the multi-record "
                "blocks of GenC01 (unmapped and secondary records interleaved, two queries) and seeded random blocks are run through sam.Indels with "
                "thresholds 1, 2 and 3; rows are compared as a set and sample lists as bags (their order is goroutine arrival / map iteration)")
    ctx.build(gofasta=False)
    vecs = kernel.tlc_gen(ctx, "GenC01", "GenC01.cfg" if ctx.quick else "GenC01_thorough.cfg", timeout=3000)
    vecs = [v for v in vecs if not v["id"].startswith("wrapwin-")]
    if ctx.quick:
        vecs = [v for k, v in enumerate(vecs) if not v["id"].startswith("one-") or (k + ctx.seed) % 6 == 0]
    vecs += kernel.rand_vectors(ctx, "sam", 150 if ctx.quick else 2000)
    out = []
    for k, v in enumerate(vecs):
        out.append({"id": v["id"], "ref": v["ref"], "recs": v["recs"], "thr": 1 + (k % 3)})
    obs = kernel.run_vectors(ctx, "indels", out)
    rows, fails, _ = kernel.validate_obs(ctx, "ObsIndels", "ObsIndels.cfg", obs, tag="indels", timeout=6000)
    kernel.account(ctx, rows, lambda r: len(r["obs"].get("ins", {}).get("rows", [])) + len(r["obs"].get("del", {}).get("rows", [])) > 0)
    ctx.exhaustive = True
    ctx.assumptions = ["the order of rows sharing a position and of the sample names in a row is unspecified (the command is not deterministic, "
                       "which is why C12 excludes it)"]
