"""X02 - the GenBank FEATURES table reader (pkg/genbank, parseGenbankFEATURES) against GenbankScan.tla.  An extension of
the specification beyond the listed properties (the GenBank side of C04/C14 goes through this reader)."""
from .. import kernel
from ..common import Machinery


def run(ctx):
    ctx.rule = ("TLC checks the reader machine (one action per branch of parseGenbankFEATURES: FirstFeature, QualFirst, Continue, QualNext, NextFeature, "
                "Ignored, and the two index/nil-map panics) against the feature-table format's meaning for every table of <=5 lines over 14 line kinds "
                "(2 feature lines, 6 qualifier forms - quoted, unquoted, flag, two-word, containing '=', left open - 5 continuation forms, a blank line): "
                "well-formed => same features, locations and qualifiers; the named deviations ('=' dropped from values, empty-key entries, a final flag "
                "qualifier lost, panics on blank lines and on tables that do not start with a feature) must still be found; every table of <=4 "
                "(thorough 5) lines is rendered into a GenBank file and read by genbank.ReadGenBank: panic for panic, feature for feature, "
                "qualifier for qualifier, and the ORIGIN letters")
    ctx.tlc("MCGenbank", "MC_Genbank.cfg", workers=16, timeout=1800)
    res = ctx.tlc("MCGenbank", "MC_Genbank_deviations.cfg", workers=1, expect_violation=True, tag="deviations", count=False, extra=["-continue"])
    for inv in ("EqualsKept", "NoEmptyKey", "FlagsKept", "NoPanic"):
        if inv not in res["violations"]:
            raise Machinery("GenbankScan: the named deviation %s is no longer found by TLC: model drifted" % inv)
    ctx.build(gofasta=False)
    vecs = kernel.tlc_gen(ctx, "GenGenbank", "GenGenbank.cfg", timeout=3000)
    obs = kernel.run_vectors(ctx, "gbscan", vecs)
    rows, fails, _ = kernel.validate_obs(ctx, "ObsGenbank", "ObsGenbank.cfg", obs, tag="gbscan", timeout=6000)
    kernel.account(ctx, rows, lambda r: not r["obs"]["gpanic"] and len(r["obs"]["feats"]) > 0 and any(f["info"] for f in r["obs"]["feats"]))
    ctx.exhaustive = True
    ctx.assumptions = ["continuation lines are appended without a separator (the format inserts a blank for free-text qualifiers; the reader never does)",
                       "sections other than FEATURES and ORIGIN are not read by gofasta and not modelled"]
