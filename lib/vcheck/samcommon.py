"""Shared Gen -> run -> Obs pass for the SAM conversion properties C01, C02, C15 (ObsSam judges all three;
each property keeps the clauses carrying its prefix)."""
from . import kernel


def nontrivial(r):
    v = r["vec"]
    ops = {o for rec in v["recs"] for o, _ in rec["cig"]}
    return len(ops) >= 2 or len(v["recs"]) >= 2


def collect(ctx, rand_n):
    ctx.tlc("MCSam", "MC_Sam.cfg" if ctx.quick else "MC_Sam_thorough.cfg", workers=16, timeout=3000)
    ctx.build(gofasta=False)
    vecs = kernel.tlc_gen(ctx, "GenC01", "GenC01.cfg" if ctx.quick else "GenC01_thorough.cfg", timeout=3000)
    if ctx.quick:
        multi = [v for v in vecs if not v["id"].startswith("one-")]
        single = [v for k, v in enumerate(v for v in vecs if v["id"].startswith("one-")) if (k + ctx.seed) % 6 == 0]
        vecs = single + multi
    vecs += kernel.rand_vectors(ctx, "sam", rand_n)
    return kernel.run_vectors(ctx, "sam", vecs, timeout=6000)


def run(ctx, prefix, rand_n):
    obs = collect(ctx, rand_n)
    rows, fails, _ = kernel.validate_obs(ctx, "ObsSam", "ObsSam.cfg", obs, tag="sam", timeout=6000)
    keep = ("panic", "timeout")
    ctx.failures = [f for f in ctx.failures if f["clause"].startswith(prefix) or f["clause"] in keep]
    kernel.account(ctx, rows, nontrivial)
    ctx.exhaustive = True
    return rows


def run_blocks(ctx, prefix, rand_n):
    """The multi-record part only (menu blocks + random blocks): `sam variants` on SAM blocks against toPairAlign+variants
    (C11) and against the mutations of the declarative pair (C05); used by the C11 and C05 checks next to their own pass."""
    vecs = kernel.tlc_gen(ctx, "GenC01", "GenC01.cfg" if ctx.quick else "GenC01_thorough.cfg", tag="blocks", timeout=3000)
    vecs = [v for v in vecs if not v["id"].startswith(("one-", "wrapwin-"))]
    vecs += kernel.rand_vectors(ctx, "sam", rand_n, tag="blocks")
    obs = kernel.run_vectors(ctx, "sam", vecs, tag="blocks", timeout=6000)
    n0 = len(ctx.failures)
    rows, fails, _ = kernel.validate_obs(ctx, "ObsSam", "ObsSam.cfg", obs, tag="blocks", timeout=6000)
    ctx.failures = ctx.failures[:n0] + [f for f in ctx.failures[n0:] if f["clause"].startswith(prefix) or f["clause"] in ("panic", "timeout")]
    kernel.account(ctx, rows, nontrivial)
