"""Regenerates /verif/MANIFEST.json from the table below:  python3 lib/vcheck/manifest.py"""
import json
import os

ROOT = os.path.dirname(os.path.dirname(os.path.dirname(os.path.abspath(__file__))))

MC = "model_checking"
CHECKS = {
    "C03": dict(tech="TLA+ spec (Alphabet/Distance) model-checked exhaustively by TLC; TLC-generated vectors replayed into snps.SNPs; observations validated by TLC (ObsC03)",
                text="TLC proves on the spec that the bit test the code uses is the property's set-disjointness for all 17x17 symbol pairs in both gap modes, "
                     "enumerates every symbol pair / case combination / width-3 row as input vectors, and judges every output row of the real snps.SNPs "
                     "(plus seeded random alignments) against the declarative SnpRow definition.",
                note="Exhaustive only up to the stated bounds (width 1 all pairs, width 3 over 6 symbols); larger inputs are sampled. Output text is parsed by the Go harness.",
                ref="7 C03"),
    "C06": dict(tech="TLA+ state machine of the -n/-d catchment (TopK.tla) model-checked against the declarative total order; TLC-enumerated target sequences rendered as alignments, replayed into closest.Closest/ClosestN, outputs validated by TLC (ObsC06)",
                text="Every sequence of up to 3 (thorough 4) targets over distance x completeness incl. undefined distances, every -n/-d setting: the machine refines the "
                     "documented order in the model, and the real code's rows equal TopKOf recomputed from the sequences.",
                note="Bounded target-sequence length; tn93 order judged only on a monotone design; undefined-distance targets allowed after all defined ones.",
                ref="7 C06"),
    "C07": dict(tech="TLC-exhaustive column-class theory (MCAlphabet: bit tests = set definitions for all 289 pairs); TLC-generated pairs replayed into closest; printed distances validated by TLC (ObsC07), tn93 eq. 7 evaluated on the spec's integer statistics",
                text="snp and raw are decided entirely by TLC (integer equality, 9-decimal long division); for tn93 TLC decides the column classes and counts, the closed form is float64.",
                note="tn93 closed form (logarithms) is outside TLC: evaluated by the driver on TLC-supplied integers, tolerance 5e-9. <1024 compared sites per pair.",
                ref="7 C07, 8"),
    "C12": dict(tech="TLA+ pipeline protocol spec (Pipeline.tla) model-checked by TLC incl. liveness; TLC-enumerated delivery orders imposed on the real worker pools via the verif gate hook; hook traces of real runs validated against the spec by TLC (TracePipeline); outputs of jittered / repeated / multi-thread runs judged by TLC (ObsC12); Go race detector for the data-race clause",
                text="All interleavings of reader, workers, writer and Main for <=3 (thorough 4) records and <=2 (3) workers per command topology are explored; every delivery order "
                     "the model allows is forced on the real code and the output must be the single-threaded output; real traces must be behaviours of the spec.",
                note="Bounded N and T in the model; large inputs only by seeded jitter. Two-stage commands are gated at both stages (stage-1 hand-off order and delivery order from the model). The data-race clause is decided by the race detector (thorough tier), not by TLA+.",
                ref="7 C12, 8"),
    "C17": dict(tech="TLC-exhaustive check of the Alphabet theory (MCAlphabet, 3375 codons, 32 characters) and TLC validation (ObsC17) of the tables dumped from the running code",
                text="Finite and exhaustive: every one of the 3375 codons, all 32 accepted characters, all 256 byte values; the code's tables are compared entry by entry with an "
                     "independently written standard code and IUPAC set semantics.",
                note="Tables are read through the exported Go functions by the harness.",
                ref="7 C17"),
}
CHECKS["C18"] = dict(
    tech="TLA+ pipeline and fan-out protocol specs model-checked by TLC with every reader/worker/header fault (safety + liveness under weak fairness); scenario table run against the binary and judged by TLC (ObsC18); in-process bad-record runs trace-validated against the spec (TracePipeline)",
    text="Design level: in every interleaving and for every fault point Main returns the error and terminates (the as-coded header hand-off is kept as a must-fail regression). "
         "Code level: every documented invalid-input condition x command x input file x record position is run and must exit non-zero within the deadline.",
    note="The scenario table lists the conditions of the statement; it is not an exhaustive grammar of invalid inputs (C16 covers FASTA byte streams). A Go panic counts as non-zero exit. Binary built with the toolchain's default cgo setting.",
    ref="7 C18")
CHECKS["C19"] = dict(
    tech="TLC model-checks a write fault at every k in the pipeline and fan-out specs (DoneOK, ErrReported); exhaustive k-th-Write fault injection into every exported entry point with traces validated against the spec; binary under strace ENOSPC injection and /dev/full; verdicts by TLC (ObsC19)",
    text="Fault enumeration is complete per input: a counting run gives W, then every k in 1..W is failed; the model covers every k in every interleaving for small N.",
    note="Representative inputs (3-5 records) per command; write = one io.Writer.Write / write(2) call.",
    ref="7 C19")
SAMTECH = ("TLA+ spec of the SAM projection (Sam.tla): the CIGAR walk, column flattening and flank machines are stepped by TLC against per-position definitions (MCSam); "
           "TLC-enumerated CIGARs and record blocks are replayed into sam.ToMultiAlign / sam.ToPairAlign under 12 option sets; outputs validated by TLC (ObsSam)")
CHECKS["C01"] = dict(tech=SAMTECH, ref="7 C01",
    text="Every SAM-valid CIGAR of <=3 (thorough 4) operations over all nine operators at several offsets, and menu-built multi-record blocks with unmapped/secondary records, "
         "are enumerated by TLC; each output row must equal MARow (projection, flattening, flank rule, window) computed by TLC from the abstract records.",
    note="Bounded CIGAR length / reference length in the enumeration; longer inputs by seeded random blocks. Domain: records inside the reference, >=1 aligned base per query, upper-case IUPAC SEQ.")
CHECKS["C02"] = dict(tech=SAMTECH, ref="7 C02",
    text="The pair written by toPairAlign must equal PairOf (column list per reference position with insertions anchored after them), its window, its --skip-insertions form; "
         "the derived clauses (degapped reference row = reference window; dropping reference-gap columns = the real toMultiAlign --pad row) are judged on real outputs.",
    note="As C01; additionally records of one query are non-conflicting (disjoint reference intervals, distinct insertion anchors). The as-coded re-gap machine is not modelled step by step (its defect was a Go slice-aliasing effect).")
CHECKS["C15"] = dict(tech=SAMTECH + "; window-filter and stdin relations of variants judged by TLC (ObsVariants); legacy flags via the binary (ObsC12 equality)", ref="7 C15",
    text="Pure relations between two real runs, judged by TLC with WindowOf / column cut / WrapOK / InWindow over every window of the small vectors and random windows of the large.",
    note="No reference to expected content; aa records straddling a join are not judged for window membership.")
VARTECH = ("TLA+ definitions of SNP positions, indels and amino-acid changes (Variants.tla); the indel scanner stepped by TLC against IndelsOf for every column-class string (MCVariants); "
           "TLC-generated alignments x feature layouts rendered as GenBank and GFF3 and replayed into variants / sam variants / toPairAlign+variants; outputs validated by TLC (ObsVariants)")
CHECKS["C04"] = dict(tech=VARTECH, ref="7 C04",
    text="Relational verdict: mentioned positions = SnpPositions exactly (with --append-snps; superset via codons without), every aa record = a true translation change of a named feature's codon, and every such change is reported; over every single-site change of a 30-base two-gene genome under 8 feature layouts.",
    note="One hand-placed genome; feature layouts from a menu; annotation consistent with the genome.")
CHECKS["C05"] = dict(tech=VARTECH, ref="7 C05",
    text="Exhaustive over column-class strings: the scanner refines IndelsOf in the model for length <=7 (9), and the real commands are run on every string of length <=6 (8) in MSA, SAM and toPairAlign form.",
    note="SAM form: reference bases outside the query's first/last base are uncovered (N), which the validator models.")
CHECKS["C11"] = dict(tech=VARTECH, ref="7 C11",
    text="Relation between real runs: sam variants = variants on real toPairAlign output (all queries), = variants on the MSA form when the two forms denote the same alignment, and is independent of the reference source.",
    note="Relation only; agreement with the spec's list is C04/C05's verdict.")
CHECKS["C13"] = dict(tech=VARTECH + "; snps --aggregate via ObsC03", ref="7 C13",
    text="Aggregate lines = the set of mutations of the real per-sequence run with count/n printed to 9 decimals (long division in TLA+), kept iff count*1000 >= threshold*n, ordered by position.",
    note="Thresholds are thousandths (exact or >=1e-3 from every occurring frequency); fewer than 1024 sequences.")
CHECKS["C14"] = dict(tech=VARTECH, ref="7 C14",
    text="Each layout is rendered both ways (join, complement, complement(join), join(complement,...) vs GFF rows with GFF3 phases); per sequence the two real outputs must be equal multisets, both position-sorted.",
    note="Layouts expressible in both formats; mixed-strand joins are outside the domain.")
UDTECH = ("TLA+ theory of updown (UpDown.tla): the tract scanner, balance() and the --dist-push map are checked by TLC against the declarative ListRow / relational EvenFill / "
          "k-smallest-distances definitions (MCUpDown); TLC-enumerated size x supply points, dist/push/threshold settings and list rows rendered as alignments and replayed into "
          "updown.List / updown.TopRanking in all four csv/fasta combinations; outputs validated by TLC (ObsUpDown)")
CHECKS["C08"] = dict(tech=UDTECH, ref="7 C08",
    text="Bounded-exhaustive over requested sizes and bin supplies in (0..2)^4 (thorough (0..3)^4) in the model; the same points as real alignments (sampled in quick, all in thorough); "
         "bin, distance, order within bin and thresholds are exact, the allocation among bins is judged relationally (EvenFill).",
    note="A/C/G/T references; thresholds multiples of 1/4; the -1 'easter egg' sizes are undocumented and excluded.")
CHECKS["C09"] = dict(tech=UDTECH, ref="7 C09",
    text="For every vector with the combos flag the harness derives the CSVs with the real updown list and runs all four input-type combinations; TLC requires the three others to be byte-identical to fasta/fasta.",
    note="Byte comparison is done by the harness; 1-3 queries per vector.")
CHECKS["C10"] = dict(tech=UDTECH, ref="7 C10",
    text="Every row over {same, snp, ambiguous} of length <=6 (7) and every (reference symbol, symbol) pair: the printed row equals ListRow; losslessness (Reconstruct(ListRow(s)) = s up to ambiguous identity) is a TLC-checked theorem of the definition.",
    note="updown list is also run on IUPAC reference symbols (width 1).")
CHECKS["C16"] = dict(
    tech="TLA+ line-kind scanner (FastaScan.tla) stepped by TLC against Records and the statement's error classes for every stream of <=4 (5) lines (MCFasta); the same streams x line-end layouts fed to the five real readers and judged by TLC (ObsC16); seeded structured byte mutation for totality",
    text="Exhaustive at the line-kind abstraction up to the bound: valid => identical records in every reader (+ score / base counts), error class => error in every validating reader, anything => no panic or hang.",
    note="Byte-level part is seeded structured mutation, not coverage-guided fuzzing; blank-line / no-ID / empty-record streams are 'read or refused'.",
    ref="7 C16, 8")
PENDING = {}
ALL = ["C%02d" % i for i in range(1, 20)]


def main():
    checks = []
    for pid in ALL:
        if pid not in CHECKS:
            continue
        c = CHECKS[pid]
        checks.append({
            "property_id": pid,
            "quick_cmd": "bin/check %s quick" % pid,
            "thorough_cmd": "bin/check %s thorough" % pid,
            "evidence_file": "evidence/%s.json" % pid,
            "replay_cmd_template": "bin/check replay {path}",
            "engine": "tlc+vharness",
            "level_claimed": {"category": c.get("level", MC), "text": c["text"], "design_ref": "DESIGN.md section " + c["ref"]},
            "level_note": c["note"],
            "technique": c["tech"],
        })
    na = [{"property_id": p, "reason": PENDING.get(p, "check not built yet in this round (planned with the TLA+ modules listed in DESIGN.md section 3)")}
          for p in ALL if p not in CHECKS]
    m = {
        "version": 1,
        "setup_cmd": "bin/setup",
        "hooks": {
            "guard": "verif",
            "enable": "go build -tags verif (bin/check rebuilds gofasta and the harness from /repo's working tree on every run)",
            "baseline_off_cmd": "cd /repo && go test -mod=mod -vet=off -count=1 -timeout 25m ./...",
            "source_commits": ["551d63f", "7f1fc12", "174bb55", "e3ed60b", "052cdaf", "274573c"],
            "add_only": True,
        },
        "engines": [
            {"name": "tlc", "path": "spec/", "serves_properties": [c["property_id"] for c in checks],
             "kind_free_text": "TLA+ specification modules; TLC model-checks them (MC_*), enumerates input vectors from them (Gen*), and validates observations of the real code against them (Obs*)"},
            {"name": "vharness", "path": "harness/", "serves_properties": [c["property_id"] for c in checks],
             "kind_free_text": "Go harness (replace => /repo, -tags verif): renders vectors to real inputs, drives gofasta's exported entry points / binary in worker sub-processes, records observations as ndjson"},
        ],
        "checks": checks,
        "not_applicable": na,
        "notes": "Exit 0 held / 1 VIOLATION / 2 machinery failure. known_findings.json lists recorded and fixed defects. DESIGN.md explains every check.",
    }
    with open(os.path.join(ROOT, "MANIFEST.json"), "w") as fh:
        json.dump(m, fh, indent=1)
        fh.write("\n")


if __name__ == "__main__":
    main()
