import importlib
import os
import sys
import traceback

from .common import Ctx, Machinery, log, seed_from_env


def main(argv):
    if len(argv) < 1:
        print(__doc__ or "usage: check <Cxx> quick|thorough", file=sys.stderr)
        return 2
    if argv[0] == "replay":
        from . import replay
        return replay.main(argv[1:])
    pid = argv[0].upper()
    tier = argv[1] if len(argv) > 1 else os.environ.get("VERIF_TIER", "quick")
    if tier not in ("quick", "thorough", "selftest"):
        print("tier must be quick|thorough|selftest", file=sys.stderr)
        return 2
    seed = seed_from_env()
    try:
        # X.. = extension checks: parts of the specification beyond the listed properties (DESIGN.md section 15)
        mod = importlib.import_module(("vcheck.extras." if pid.startswith("X") else "vcheck.props.") + pid.lower())
    except ImportError as e:
        print("no check for %s: %s" % (pid, e), file=sys.stderr)
        return 2
    try:
        if tier == "selftest":
            ctx = Ctx(pid + "-selftest", "quick", seed)
            ctx.pid = pid
            return mod.selftest(ctx)
        ctx = Ctx(pid, tier, seed)
        mod.run(ctx)
        return ctx.finish()
    except Machinery as e:
        log("MACHINERY FAILURE (exit 2, not a verdict):", e)
        return 2
    except Exception:
        traceback.print_exc()
        log("MACHINERY FAILURE (exit 2, not a verdict): unexpected exception")
        return 2
