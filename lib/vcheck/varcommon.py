"""Shared Gen -> run -> Obs pass for the variants properties C04, C05, C11, C13, C14 and the filter part of C15."""
from . import kernel


def nontrivial(r):
    runs = r["obs"].get("runs") or []
    return any(any(row.get("muts") for row in ro.get("rows", [])) for ro in runs)


def collect(ctx, rand_n=0, extra_vecs=None):
    ctx.tlc("MCVariants", "MC_Variants.cfg" if ctx.quick else "MC_Variants_thorough.cfg", workers=16, timeout=3000)
    res = ctx.tlc("MCVariants", "MC_Variants_AsCoded.cfg", workers=4, expect_violation=True, tag="ascoded", count=False)
    if "Refines" not in res["violations"]:
        from .common import Machinery
        raise Machinery("the as-coded indel scanner no longer violates Refines in the model: model drifted")
    ctx.tlc("MCAlphabet", "MCAlphabet.cfg", workers=8)
    ctx.build()
    vecs = kernel.tlc_gen(ctx, "GenVariants", "GenVariants.cfg" if ctx.quick else "GenVariants_thorough.cfg", timeout=3000)
    if ctx.quick:
        anno = [v for v in vecs if v["kind"] == "anno"]
        cls = [v for k, v in enumerate(v for v in vecs if v["kind"] == "indel") if (k + ctx.seed) % 4 == 0]
        vecs = anno + cls
    # the annotation file's own layout: CRLF line ends and / or an unterminated last line for three vectors in four
    for k, v in enumerate(x for x in vecs if x["kind"] == "anno"):
        m = (k + ctx.seed) % 4
        if m in (1, 3):
            v["annocrlf"] = True
        if m in (2, 3):
            v["annononl"] = True
        if (k // 4 + ctx.seed) % 2 == 0:
            v["gffplain"] = True       # no ##FASTA section: a feature row ends the file; Name is the last attribute of a row
    vecs += kernel.rand_vectors(ctx, "variants", rand_n)
    vecs += extra_vecs or []
    return kernel.run_vectors(ctx, "variants", vecs, timeout=6000)


def run(ctx, prefixes, rand_n=0, extra_vecs=None):
    obs = collect(ctx, rand_n, extra_vecs)
    rows, fails, _ = kernel.validate_obs(ctx, "ObsVariants", "ObsVariants.cfg", obs, tag="variants", timeout=6000)
    keep = ("panic", "timeout")
    ctx.failures = [f for f in ctx.failures if any(f["clause"].startswith(p) for p in prefixes) or f["clause"] in keep]
    kernel.account(ctx, rows, nontrivial)
    ctx.exhaustive = True
    return rows


GENOME = "TTGATGGCTAAATAAGGCTCACCCGGGCAT"


def refdup_vectors(ctx):
    """Alignments that carry the reference record a second time (two alignments to one reference, concatenated), read from a
    file and from stdin, with and without a window: the record named like the reference is never a query."""
    import random
    rng = random.Random(ctx.seed + 31)
    feats = [{"name": "g1", "kind": "CDS", "named": True, "strand": 1, "segs": [[4, 15]], "cstart": 1, "gbform": 0}]

    def run(stdin, s=-1, e=-1, app=False):
        return {"cmd": "variants", "anno": "gb", "append": app, "s": s, "e": e, "agg": False, "thr": 0, "t": 2, "stdin": stdin}
    out = []
    for k in range(4):
        qs = []
        for i in range(3 + k):
            q = list(GENOME)
            for p in rng.sample(range(len(q)), 1 + rng.randrange(3)):
                q[p] = {"A": "C", "C": "G", "G": "T", "T": "A"}[q[p]]
            qs.append(q)
        out.append({"id": "refdup-%d" % k, "kind": "anno", "R": list(GENOME), "qs": qs, "feats": feats, "refdup": True,
                    "runs": [run(False), run(True), run(False, app=True), run(True, app=True), run(False, 5, 20), run(True, 5, 20), run(True, -1, 12)]})
    return out


RULE = ("TLC steps the indel scanner against the declarative IndelsOf for every column-class string over {both-gap, insertion, deletion, base} of "
        "length <=7 (thorough 9) and checks the both-gap invariance on the definition; every such string of length <=6 (8) is run as a 3-sequence "
        "alignment through variants, sam variants and toPairAlign+variants; a 30-base genome with a forward and a reverse gene under 8 feature "
        "layouts (single, joined with a gap, joined with segments that are not multiples of 3, complement(join) and join(complement), nested mature "
        "peptide, codon_start 2, unnamed GFF CDS, overlapping genes) x 3 reference gappings, each with 227 queries (every single-site change of "
        "every position to each of the three other bases / an incompatible code / a compatible code / N / gap, double changes inside codons, insertions) under "
        "16 option sets (GenBank/GFF, --append-snps, windows, --aggregate thresholds, stdin, threads, reference from file or annotation), the "
        "annotation files with LF / CRLF line ends, a terminated / unterminated last line, GFF3 with and without a ##FASTA section; "
        "non-trivial = an alignment for which at least one mutation is reported")
