"""bin/check replay <path>: re-run the one vector recorded in a replay file against the current tree and re-validate it."""
import json
import sys

from . import kernel, pipetrace
from .common import Ctx, Machinery, log, read_ndjson, seed_from_env

# validation tag recorded in the replay file -> (harness family, validator module by property)
FAMILY = {"snps": "snps", "closest": "closest", "sam": "sam", "blocks": "sam", "variants": "variants", "updown": "updown",
          "fasta": "fasta", "pipe": "pipe", "wfail": "pipe", "badrec": "pipe", "count": "pipe", "cli": "cli", "legacy": "cli"}
OBS = {"snps": "ObsC03", "sam": "ObsSam", "blocks": "ObsSam", "variants": "ObsVariants", "updown": "ObsUpDown", "fasta": "ObsC16"}
BYPROP = {"C06": "ObsC06", "C07": "ObsC07", "C12": "ObsC12", "C15": "ObsC12", "C18": "ObsC18", "C19": "ObsC19"}


def main(argv):
    if not argv:
        print("usage: check replay <path>", file=sys.stderr)
        return 2
    d = json.load(open(argv[0]))
    pid, case = d["property"], d["case"]
    det = case["detail"]
    vec = det.get("vec")
    tag = det.get("family")
    if vec is None or tag not in FAMILY:
        print("this replay file does not carry a vector (clause %s)" % d.get("clause"), file=sys.stderr)
        return 2
    fam = FAMILY[tag]
    module = OBS.get(tag) or BYPROP.get(pid)
    try:
        ctx = Ctx(pid + "-replay", "quick", seed_from_env())
        ctx.pid = pid
        ctx.build()
        obs = kernel.run_vectors(ctx, fam, [vec], tag="replay")
        rows = read_ndjson(obs)
        bad = []
        if d.get("clause") == "trace-rejected":
            for r, why in pipetrace.validate_traces(ctx, rows, tag="replaytrace"):
                bad.append(("trace-rejected", why))
        else:
            fails, _ = ctx.validate(module, module + ".cfg", obs, tag="replay", parts=1)
            bad = [(f["clause"], f.get("signature")) for f in fails]
        print(json.dumps({"vector": vec.get("id"), "observed": rows[0]["obs"]}, default=str)[:3000])
        hit = [b for b in bad if b[0] == d.get("clause")]
        if hit:
            print("VIOLATION property=%s replay=%s clause=%s (reproduced on the current tree)" % (pid, argv[0], d.get("clause")))
            return 1
        print("replay: clause %s does not fail on the current tree (other clauses failing: %s)" % (d.get("clause"), bad))
        return 0
    except Machinery as e:
        log("MACHINERY FAILURE:", e)
        return 2
