INIT Init
NEXT Next
CONSTANT MaxLines = 4
INVARIANT EmitInv
CHECK_DEADLOCK FALSE
