SPECIFICATION Spec
CONSTANTS
  Muts <- DefaultMuts
  NSeq = 2
  KeyFields <- KeyIntended
  ThrNum = 1
  ThrDen = 2
INVARIANT Frequencies
INVARIANT Deterministic
CHECK_DEADLOCK FALSE
