---------------------------- MODULE MCBalanceInd ----------------------------
(* TLC's view of BalanceInd: the same machine started from every requested /  *)
(* supplied vector in (0..M)^4, with IndInv as an invariant of its reachable   *)
(* states, and its result compared with the Balance operator of UpDown.tla     *)
(* (the one MC_UpDown checks against EvenFill and the replay binds to the      *)
(* code) - so that what Apalache proves inductive is the model the rest of the *)
(* specification uses.                                                         *)
EXTENDS BalanceInd
CONSTANT M
U == INSTANCE UpDown
TInit == /\ ideal \in [B -> 0..M] /\ obs \in [B -> 0..M] /\ total = Sum4(ideal)
         /\ \E j \in B : obs[j] < ideal[j]
         /\ size = [j \in B |-> Base(j)]
         /\ avail = [j \in B |-> Spare0(j)]
         /\ i = 1 /\ round = 0 /\ pc = "loop"
SameAsBalance == pc = "done" => size = U!Balance(total, ideal, obs, FALSE)
Terminates == <>(pc = "done")
TSpec == TInit /\ [][Next]_<<ideal, obs, total, size, avail, i, round, pc>> /\ WF_<<ideal, obs, total, size, avail, i, round, pc>>(Step)
=============================================================================
