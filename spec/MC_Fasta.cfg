SPECIFICATION Spec
CONSTANT MaxLines = 4
INVARIANT ValidInv
INVARIANT StrictInv
INVARIANT TotalInv
INVARIANT BlankInv
CHECK_DEADLOCK FALSE
