-------------------------------- MODULE GenGff --------------------------------
(* Spec -> code for GffScan: every file of <= 3 (thorough 4) line kinds, and   *)
(* longer files built around the well-formed skeleton (version, region, rows,  *)
(* ##FASTA, records).                                                          *)
EXTENDS GffScan, GenBase
N == IF Thorough THEN 4 ELSE 3
RECURSIVE Name(_, _)
Name(x, i) == IF i > Len(x) THEN "" ELSE x[i] \o Name(x, i + 1)
Skeleton == {<<"Hv", "Hs">> \o mid \o tail : mid \in UNION {[1..n -> {"Rc", "Rd", "Rg", "Cm", "Ho", "Ra", "Bl"}] : n \in 1..3},
                                            tail \in {<<>>, <<"Fa", "Fh", "Fq">>, <<"Fa", "Fh", "Fq", "Fq", "Fh", "Fq", "Fq">>, <<"Fa", "Fh", "Fq", "Fh", "Fq", "Fq">>,
                                                      <<"Fa", "Bl", "Fh", "Fq", "Bl">>, <<"Fa", "Fq">>, <<"Fa">>, <<"Fa", "Rc">>}}
VARIABLE v
Init == v \in UNION {[1..n -> GKinds] : n \in 1..N} \cup Skeleton
Next == UNCHANGED v
EmitInv == EmitVec([id |-> Name(v, 1), kinds |-> v, lines |-> [i \in 1..Len(v) |-> K[v[i]].text]])
=============================================================================
