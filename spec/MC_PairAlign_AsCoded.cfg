SPECIFICATION Spec
CONSTANTS
  MaxRecs = 2
  OwnOffsets = FALSE
INVARIANT Refines
INVARIANT RowsAligned
INVARIANT NoStuck
CHECK_DEADLOCK FALSE
