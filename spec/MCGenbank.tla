------------------------------ MODULE MCGenbank ------------------------------
(* Every table of <= MaxLines line kinds, one initial state each.           *)
EXTENDS GenbankScan
CONSTANT MaxLines
VARIABLE ls
Tables == UNION {[1..n -> Kinds] : n \in 1..MaxLines}
Init == ls \in Tables
Next == UNCHANGED ls
(* on well-formed tables the reader yields the format's meaning ('=' inside a value aside) *)
Sound == (WellFormed(ls) /\ ~HasKind(ls, "Qe")) => (~Scan(ls).panic /\ SameTable(Scan(ls).feats, FeaturesOf(ls)))
(* named deviations: TLC must find each *)
EqualsKept == WellFormed(ls) => (~Scan(ls).panic /\ SameTable(Scan(ls).feats, FeaturesOf(ls)))        \* fails: /note="a=b" is read as ab
NoEmptyKey == (WellFormed(ls) /\ ~Scan(ls).panic) => \A n \in 1..Len(Scan(ls).feats) : \A p \in Scan(ls).feats[n].info : p[1] # ""   \* fails
FlagsKept == (WellFormed(ls) /\ ~HasKind(ls, "Qe") /\ ~Scan(ls).panic) =>
               \A n \in 1..Len(Scan(ls).feats) : {p[1] : p \in Scan(ls).feats[n].info} \ {""} = {p[1] : p \in FeaturesOf(ls)[n].info}   \* fails: a final /pseudo is lost
NoPanic == ~Scan(ls).panic                                                                            \* fails: blank lines, tables not starting with a feature
=============================================================================
