------------------------------- MODULE ObsC16 -------------------------------
(* Code -> spec for C16: what the five FASTA readers returned for one stream,   *)
(* judged at the line-kind abstraction of FastaScan.  Raw byte streams (seeded  *)
(* structured mutation) are judged for totality and reader agreement only.      *)
EXTENDS FastaScan, ObsBase
VARIABLES l, nbad
Encoded == {"enc", "score", "list"}
R(o, name) == o.obs[name]
SameRec(got, want, plain) == got.id = want.id /\ got.desc = want.desc /\ got.idx = want.idx /\ got.seq = want.seq
RecsOK(r, want, plain) == r.err = "" /\ Len(r.recs) = Len(want) /\ \A k \in 1..Len(want) : SameRec(r.recs[k], want[k], plain)
ScoreOK(r, want) == \A k \in 1..Len(want) : k <= Len(r.recs) =>
     /\ r.recs[k].score = Score12(want[k].seq)
     /\ r.recs[k].a = CountOf(want[k].seq, "A") /\ r.recs[k].c = CountOf(want[k].seq, "C")
     /\ r.recs[k].g = CountOf(want[k].seq, "G") /\ r.recs[k].t = CountOf(want[k].seq, "T")
Agree(a, b) == (a.err = "") = (b.err = "") /\ (a.err = "" => Len(a.recs) = Len(b.recs) /\ \A k \in 1..Len(a.recs) : SameRec(a.recs[k], b.recs[k], FALSE))
FailedKinds(o) ==
  LET ls == o.vec.lines  cls == Class(ls)  want == Records(ls) IN
  (IF cls = "Valid"
   THEN (IF \A n \in Encoded : RecsOK(R(o, n), want, FALSE) THEN {} ELSE {"valid-stream-records"})
        \cup (IF RecsOK(R(o, "plain"), want, TRUE) THEN {} ELSE {"valid-stream-records-plain"})
        \cup (IF ScoreOK(R(o, "score"), want) THEN {} ELSE {"score-and-base-counts"})
        \cup (IF (\E k \in 1..Len(want) : want[k].id = "s1") => R(o, "variants").err = "" THEN {} ELSE {"valid-stream-variants"})   \* (s1 is the --reference)
   ELSE IF ErrorClass(cls)
   THEN (IF \A n \in Encoded : R(o, n).err # "" THEN {} ELSE {"strict-" \o cls})
        \cup (IF cls = "BadSymbol" \/ R(o, "plain").err # "" THEN {} ELSE {"strict-plain-" \o cls})
        \cup (IF R(o, "variants").err # "" THEN {} ELSE {"strict-variants-" \o cls})
   ELSE {})
  \cup (IF Agree(R(o, "enc"), R(o, "score")) /\ Agree(R(o, "enc"), R(o, "list")) THEN {} ELSE {"readers-disagree"})
FailedRaw(o) == (IF Agree(R(o, "enc"), R(o, "score")) /\ Agree(R(o, "enc"), R(o, "list")) THEN {} ELSE {"readers-disagree"})
                \cup (IF Has(o.vec, "valid") /\ ~(/\ \A n \in Encoded \cup {"plain"} : R(o, n).err = "" /\ Len(R(o, n).recs) = o.vec.valid
                                                 /\ Agree(R(o, "enc"), R(o, "plain")) /\ R(o, "variants").err = "" /\ R(o, "variants").ok)
                      THEN {"valid-stream-records"} ELSE {})      \* (streams built as valid alignments: every reader, findReference included, reads them)
Failed(o) ==
  IF o.obs.panic THEN {"panic"} ELSE IF o.obs.timeout THEN {"hang"} ELSE
  IF Has(o.vec, "lines") THEN FailedKinds(o) ELSE FailedRaw(o)
Sig(o, cl) ==
  IF cl \notin {"panic", "hang"} \/ ~Has(o.vec, "lines") THEN cl
  ELSE LET ls == o.vec.lines IN
       cl \o (IF \E i \in 1..Len(ls) : ls[i] = "bl" THEN ":blank-line" ELSE "") \o (IF \E i \in 1..Len(ls) : ls[i] \in {"hn", "hs"} THEN ":header-without-id" ELSE "")
Init == l = 1 /\ nbad = 0
Next == /\ l <= Len(Trace)
        /\ LET o == Trace[l]  bad == Failed(o) IN
             /\ \A cl \in bad : Emit(FailFile, [line |-> l, id |-> o.id, clause |-> cl, signature |-> Sig(o, cl)])
             /\ nbad' = nbad + Cardinality(bad)
        /\ l' = l + 1
Post == TLCGet("stats").diameter = Len(Trace) + 1
=============================================================================
