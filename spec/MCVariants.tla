----------------------------- MODULE MCVariants -----------------------------
(* The indel scanner of pairwise.go, stepped column by column over every       *)
(* column-class string of length <= MaxLen over {both-gap, insertion,          *)
(* deletion, base}, against the declarative IndelsOf; and the invariance       *)
(* clause of C05: adding both-gap columns never changes the result.            *)
EXTENDS Variants
CONSTANTS MaxLen, AsCoded
VARIABLES cls, j, st, pc
vars == <<cls, j, st, pc>>
Classes == {"g", "i", "d", "b"}
RowR(c) == [k \in 1..Len(c) |-> IF c[k] \in {"g", "i"} THEN "-" ELSE "A"]
RowQ(c) == [k \in 1..Len(c) |-> IF c[k] \in {"g", "d"} THEN "-" ELSE "A"]
Init == /\ cls \in UNION {[1..n -> Classes] : n \in 1..MaxLen}
        /\ j = 1 /\ st = ScanInit /\ pc = "scan"
ColBothGap == pc = "scan" /\ j <= Len(cls) /\ cls[j] = "g" /\ st' = ScanStep(RowR(cls), RowQ(cls), j, st, AsCoded) /\ j' = j + 1 /\ UNCHANGED <<cls, pc>>
ColIns     == pc = "scan" /\ j <= Len(cls) /\ cls[j] = "i" /\ st' = ScanStep(RowR(cls), RowQ(cls), j, st, AsCoded) /\ j' = j + 1 /\ UNCHANGED <<cls, pc>>
ColDel     == pc = "scan" /\ j <= Len(cls) /\ cls[j] = "d" /\ st' = ScanStep(RowR(cls), RowQ(cls), j, st, AsCoded) /\ j' = j + 1 /\ UNCHANGED <<cls, pc>>
ColBase    == pc = "scan" /\ j <= Len(cls) /\ cls[j] = "b" /\ st' = ScanStep(RowR(cls), RowQ(cls), j, st, AsCoded) /\ j' = j + 1 /\ UNCHANGED <<cls, pc>>
Finish     == pc = "scan" /\ j = Len(cls) + 1 /\ st' = [st EXCEPT !.out = ScanFinish(RowR(cls), st, AsCoded)] /\ pc' = "done" /\ UNCHANGED <<cls, j>>
Next == ColBothGap \/ ColIns \/ ColDel \/ ColBase \/ Finish
Spec == Init /\ [][Next]_vars

Refines == pc = "done" => st.out = IndelsOf(RowR(cls), RowQ(cls))
(* C05 invariance: dropping the both-gap columns changes nothing (so neither does adding them) *)
NoGap(c) == SelectSeq(c, LAMBDA x : x # "g")
Invariance == pc = "done" => IndelsOf(RowR(cls), RowQ(cls)) = IndelsOf(RowR(NoGap(cls)), RowQ(NoGap(cls)))
RunsDisjoint == pc = "done" => \A a, b \in st.out : (a # b /\ a.type = b.type) => (a.pos + (IF a.type = "del" THEN a.len ELSE 0) <= b.pos \/ b.pos + (IF b.type = "del" THEN b.len ELSE 0) <= a.pos \/ a.pos # b.pos)
=============================================================================
