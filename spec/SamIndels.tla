------------------------------ MODULE SamIndels ------------------------------
(***************************************************************************)
(* `sam indels` (pkg/sam/indels.go; deprecated, outside C12) - an extension *)
(* of the specification beyond the listed properties.  Every I and D        *)
(* operation of every contributing record is one occurrence; occurrences    *)
(* are pooled by (reference position, inserted bases) / (reference          *)
(* position, length) over all records, with no attempt to reconcile the     *)
(* records of one query; a pool is written when it has at least `threshold` *)
(* members.  Rows come in ascending position; the order of rows that share  *)
(* a position and of the sample names in a row is that of goroutine arrival *)
(* and of Go's map iteration, i.e. unspecified: the validator compares rows *)
(* as a set and sample lists as bags.  Positions are 1-based: for a         *)
(* deletion the first deleted base, for an insertion the base AFTER it      *)
(* (unlike the ins:P:n records of `variants`, which name the base before).  *)
(***************************************************************************)
EXTENDS Sam
OpsOf(r, op) == {k \in 1..Len(r.cig) : r.cig[k][1] = op}
InsKey(r, k) == <<r.pos + RefBefore(r.cig, k) + 1, SubSeq(r.seq, QryBefore(r.cig, k) + 1, QryBefore(r.cig, k) + r.cig[k][2])>>
DelKey(r, k) == <<r.pos + RefBefore(r.cig, k) + 1, r.cig[k][2]>>
Used(recs) == {i \in 1..Len(recs) : Contributes(recs[i])}
InsKeys(recs) == UNION {{InsKey(recs[i], k) : k \in OpsOf(recs[i], "I")} : i \in Used(recs)}
DelKeys(recs) == UNION {{DelKey(recs[i], k) : k \in OpsOf(recs[i], "D")} : i \in Used(recs)}
(* how often query q is a member of the pool of key x *)
InsCount(recs, x, q) == LET RECURSIVE S(_) S(i) == IF i = 0 THEN 0 ELSE S(i - 1) +
                            (IF i \in Used(recs) /\ recs[i].q = q THEN Cardinality({k \in OpsOf(recs[i], "I") : InsKey(recs[i], k) = x}) ELSE 0) IN S(Len(recs))
DelCount(recs, x, q) == LET RECURSIVE S(_) S(i) == IF i = 0 THEN 0 ELSE S(i - 1) +
                            (IF i \in Used(recs) /\ recs[i].q = q THEN Cardinality({k \in OpsOf(recs[i], "D") : DelKey(recs[i], k) = x}) ELSE 0) IN S(Len(recs))
Queries(recs) == {recs[i].q : i \in 1..Len(recs)}
Size(recs, x, Count(_, _, _)) == LET qs == Queries(recs) IN
                                 LET RECURSIVE T(_) T(S0) == IF S0 = {} THEN 0 ELSE LET q == CHOOSE q \in S0 : TRUE IN Count(recs, x, q) + T(S0 \ {q}) IN T(qs)
=============================================================================
