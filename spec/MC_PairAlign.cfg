SPECIFICATION Spec
CONSTANTS
  MaxRecs = 2
  OwnOffsets = TRUE
INVARIANT Refines
INVARIANT RowsAligned
INVARIANT NoStuck
CHECK_DEADLOCK FALSE
