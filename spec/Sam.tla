--------------------------------- MODULE Sam ---------------------------------
(***************************************************************************)
(* What a SAM file of alignments to one reference means, per reference      *)
(* position (C01, C02, C15), written from the property statements: no row    *)
(* building, no offsets.  And, separately, the machines the code runs (the   *)
(* CIGAR walk with its cursors, the per-column flattening, the flank         *)
(* rewrite), one step per branch, which MCSam checks against the             *)
(* definitions.                                                              *)
(*                                                                           *)
(* A record: [q |-> query number, flag, pos |-> 0-based leftmost reference   *)
(* position, cig |-> Seq(<<op, len>>), seq |-> Seq(symbol)].                 *)
(***************************************************************************)
EXTENDS Integers, Sequences, FiniteSets, TLC, SequencesExt, Functions

Ops == {"M", "I", "D", "N", "S", "H", "P", "=", "X"}
ConsRef(op) == op \in {"M", "D", "N", "=", "X"}
ConsQry(op) == op \in {"M", "I", "S", "=", "X"}
Aligned(op) == op \in {"M", "=", "X"}

Consumes(which, op) == IF which = "ref" THEN ConsRef(op) ELSE ConsQry(op)
RECURSIVE SumTo(_, _, _)
SumTo(c, k, which) == IF k = 0 THEN 0 ELSE SumTo(c, k - 1, which) + (IF Consumes(which, c[k][1]) THEN c[k][2] ELSE 0)
RefBefore(c, k) == SumTo(c, k - 1, "ref")          \* reference bases consumed before operation k
QryBefore(c, k) == SumTo(c, k - 1, "qry")
RefSpan(c) == SumTo(c, Len(c), "ref")
QryLen(c)  == SumTo(c, Len(c), "qry")

(* the rule by which the SAM reader accepts a CIGAR for a sequence of length n *)
SamValid(c, n) ==
  /\ Len(c) >= 1
  /\ \A k \in 1..Len(c) : c[k][1] = "H" => k = 1 \/ k = Len(c)
  /\ \A k \in 1..Len(c) : (c[k][1] = "S" /\ k # 1 /\ k # Len(c)) => (c[k - 1][1] = "H" \/ c[k + 1][1] = "H")
  /\ QryLen(c) = n

Unmapped(r)  == (r.flag \div 4) % 2 = 1
Secondary(r) == (r.flag \div 256) % 2 = 1
Contributes(r) == ~Unmapped(r) /\ ~Secondary(r)

(* ---- C01: what record r shows at 0-based reference position p -------------- *)
(* a base, "-" (the CIGAR deletes p), or "*" (not covered, or skipped by N)      *)
At(r, p) ==
  LET c == r.cig
      hits == {k \in 1..Len(c) : ConsRef(c[k][1]) /\ r.pos + RefBefore(c, k) <= p /\ p < r.pos + RefBefore(c, k) + c[k][2]}
  IN IF hits = {} THEN "*"
     ELSE LET k == CHOOSE k \in hits : TRUE
              off == p - (r.pos + RefBefore(c, k))
          IN IF Aligned(c[k][1]) THEN r.seq[QryBefore(c, k) + off + 1]
             ELSE IF c[k][1] = "D" THEN "-" ELSE "*"
Proj(r, L) == [p \in 1..L |-> At(r, p - 1)]
IsLetter(x) == x \notin {"-", "*"}
FlatCol(col) ==            \* col: the set of symbols the records of one query show at one position
  LET letters == {x \in col : IsLetter(x)}
  IN IF Cardinality(letters) > 1 THEN "N"
     ELSE IF letters # {} THEN CHOOSE x \in letters : TRUE
     ELSE IF "-" \in col THEN "-" ELSE "*"
Flat(block, L) == LET rows == TLCEval([i \in 1..Len(block) |-> Proj(block[i], L)])
                  IN [p \in 1..L |-> FlatCol({rows[i][p] : i \in 1..Len(block)})]
HasLetter(row) == \E p \in 1..Len(row) : IsLetter(row[p])
FlankRule(row, pad) ==
  LET idx == {p \in 1..Len(row) : IsLetter(row[p])}
      lo == CHOOSE p \in idx : \A x \in idx : p <= x
      hi == CHOOSE p \in idx : \A x \in idx : p >= x
  IN [p \in 1..Len(row) |-> IF row[p] # "*" THEN row[p]
                             ELSE IF pad THEN "N" ELSE IF p < lo \/ p > hi THEN "-" ELSE "N"]
WindowOf(row, s, e, pad) == IF pad THEN [p \in 1..Len(row) |-> IF p < s \/ p > e THEN "N" ELSE row[p]]
                            ELSE SubSeq(row, s, e)
MARow(block, L, pad, s, e) == WindowOf(FlankRule(Flat(block, L), pad), s, e, pad)

(* grouping: consecutive contributing records with the same query number *)
Contrib(recs) == SelectSeq(recs, Contributes)
RECURSIVE GroupsOf(_)
GroupsOf(cs) ==            \* sequence of blocks (sequences of records), in input order
  IF cs = <<>> THEN <<>>
  ELSE LET n == CHOOSE n \in 1..Len(cs) : (\A k \in 1..n : cs[k].q = cs[1].q) /\ (n = Len(cs) \/ cs[n + 1].q # cs[1].q)
       IN <<SubSeq(cs, 1, n)>> \o GroupsOf(SubSeq(cs, n + 1, Len(cs)))
Groups(recs) == GroupsOf(Contrib(recs))

(* ---- C02: the pairwise alignment of one query, column by column -------------- *)
(* insertions of a record: [at |-> number of reference bases to the left, bases]  *)
InsOfRec(r) == LET c == r.cig IN
  [k \in 1..Len(c) |-> IF c[k][1] = "I"
                        THEN [at |-> r.pos + RefBefore(c, k), bases |-> SubSeq(r.seq, QryBefore(c, k) + 1, QryBefore(c, k) + c[k][2])]
                        ELSE [at |-> -1, bases |-> <<>>]]
RECURSIVE Cat(_, _)
Cat(s, k) == IF k = 0 THEN <<>> ELSE Cat(s, k - 1) \o s[k]
InsAtRec(r, a) == LET io == InsOfRec(r) IN Cat([k \in 1..Len(io) |-> IF io[k].at = a THEN io[k].bases ELSE <<>>], Len(io))
InsAt(block, a) == Cat([i \in 1..Len(block) |-> InsAtRec(block[i], a)], Len(block))   \* domain: at most one record inserts at a
Gaps(n) == [i \in 1..n |-> "-"]
SwapN(row) == [p \in 1..Len(row) |-> IF row[p] = "*" THEN "N" ELSE row[p]]
(* columns contributed by anchor a (the insertion after a reference bases) followed by reference base a+1 *)
PairCols(ref, block, flat, a) ==
  LET ins == InsAt(block, a)
  IN IF a = Len(ref) THEN [R |-> Gaps(Len(ins)), Q |-> ins]
     ELSE [R |-> Gaps(Len(ins)) \o <<ref[a + 1]>>, Q |-> ins \o <<flat[a + 1]>>]
RECURSIVE PairFrom(_, _, _, _, _)
PairFrom(ref, block, flat, a, last) ==
  LET here == PairCols(ref, block, flat, a)
  IN IF a = last THEN here
     ELSE LET rest == PairFrom(ref, block, flat, a + 1, last) IN [R |-> here.R \o rest.R, Q |-> here.Q \o rest.Q]
PairOf(ref, block) == PairFrom(ref, block, SwapN(Flat(block, Len(ref))), 0, Len(ref))
(* --start s --end e: from the column of reference base s to that of base e: anchors s..e-1 contribute their     *)
(* insertion only after base s, i.e. the insertion before base s and the one after base e are outside            *)
PairWindow(ref, block, s, e) ==
  LET flat == SwapN(Flat(block, Len(ref)))
      first == [R |-> <<ref[s]>>, Q |-> <<flat[s]>>]
  IN IF s = e THEN first
     ELSE LET rest == PairFrom(ref, block, flat, s, e - 1)   \* anchors s..e-1, each followed by base a+1 (<= e)
          IN [R |-> first.R \o rest.R, Q |-> first.Q \o rest.Q]
PairSkipIns(ref, block, s, e) == [R |-> SubSeq(ref, s, e), Q |-> SubSeq(SwapN(Flat(block, Len(ref))), s, e)]
Degap(row) == SelectSeq(row, LAMBDA x : x # "-")
DropRefGapCols(R, Q) == LET keep == SelectSeq([i \in 1..Len(R) |-> i], LAMBDA i : R[i] # "-") IN [k \in 1..Len(keep) |-> Q[keep[k]]]

(* records of one block cover pairwise disjoint reference intervals, and no two insert at the same anchor *)
Interval(r) == {p \in r.pos..(r.pos + RefSpan(r.cig) - 1) : TRUE}
Anchors(r) == LET io == InsOfRec(r) IN {io[k].at : k \in 1..Len(io)} \ {-1}
NonConflicting(block) == \A i, j \in 1..Len(block) : i # j =>
                            /\ Interval(block[i]) \cap Interval(block[j]) = {}
                            /\ Anchors(block[i]) \cap Anchors(block[j]) = {}

(* ---- C15: --wrap w only re-breaks lines ---------------------------------------------- *)
WrapOK(lens, n, w) ==      \* lens: the lengths of the sequence lines of one record of n symbols
  IF w <= 0 THEN lens = <<n>>
  ELSE /\ \A k \in 1..(Len(lens) - 1) : lens[k] = w
       /\ Len(lens) >= 1 /\ lens[Len(lens)] >= 1 /\ lens[Len(lens)] <= w
       /\ (Len(lens) - 1) * w + lens[Len(lens)] = n

(* ---- the CIGAR walk as the code runs it: cursors q (query), r (reference), the row so far ------ *)
WalkStep(c, k, seq, q, r, row) ==      \* one operation: returns <<q', r', row'>>
  LET op == c[k][1]  n == c[k][2] IN
  CASE op \in {"M", "=", "X"} -> <<q + n, r + n, row \o SubSeq(seq, q + 1, q + n)>>
    [] op = "I" -> <<q + n, r, row>>
    [] op = "D" -> <<q, r + n, row \o [i \in 1..n |-> "-"]>>
    [] op = "N" -> <<q, r + n, row \o [i \in 1..n |-> "*"]>>
    [] op = "S" -> <<q + n, r, row>>
    [] op = "H" -> <<q, r, row>>
    [] op = "P" -> <<q, r, row>>
=============================================================================
