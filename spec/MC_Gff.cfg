CONSTANT MaxLines = 4
INIT Init
NEXT Next
INVARIANTS Sound Accepts
CHECK_DEADLOCK FALSE
