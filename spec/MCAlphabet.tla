----------------------------- MODULE MCAlphabet -----------------------------
(* Exhaustive check of the Alphabet theory: one state per codon, per symbol   *)
(* pair and mode, per accepted character.  Invariants are the clauses C03,    *)
(* C07 and C17 rely on.                                                       *)
EXTENDS Distance
VARIABLE x
Init == \/ x \in [kind : {"codon"}, c : Codons3375]
        \/ x \in [kind : {"pair"}, a : Sym, b : Sym, hard : BOOLEAN]
        \/ x \in [kind : {"char"}, c : Chars]
        \/ x \in [kind : {"thm"}, n : 1..10]
        \/ x \in {[kind |-> "dec", n |-> n, d |-> d] : n \in 0..2, d \in 1..40} /\ x.n <= x.d
Next == UNCHANGED x

CodonInv == x.kind = "codon" =>
   LET c == x.c IN
   /\ Translate(c) # "X" => \A e \in Expand(c) : StdCode(e) = Translate(c)
   /\ Translate(c) = "X" => Cardinality(Products(c)) > 1
   /\ (c \in Codons64) => Translate(c) = StdCode(c)
   /\ Translate(c) \in {"A","C","D","E","F","G","H","I","K","L","M","N","P","Q","R","S","T","V","W","Y","*","X"}
PairInv == x.kind = "pair" =>
   /\ ((Enc(x.a, x.hard) & Enc(x.b, x.hard)) < 16) <=> Disjoint(x.a, x.b, x.hard)
   /\ Disjoint(x.a, x.b, x.hard) <=> Disjoint(x.b, x.a, x.hard)
   /\ (Enc(x.a, FALSE) = Enc(x.b, FALSE)) => x.a = x.b
PairDistInv == x.kind = "pair" /\ ~x.hard =>
   /\ BitDiffer(x.a, x.b) <=> Differ(x.a, x.b)
   /\ BitSameKnown(x.a, x.b) <=> SameKnown(x.a, x.b)
   /\ BitTnDiff(x.a, x.b) <=> (BothKnown(x.a, x.b) /\ Differ(x.a, x.b))
   /\ BitTnP1(x.a, x.b) <=> (BothKnown(x.a, x.b) /\ Differ(x.a, x.b) /\ Purine(x.a) /\ Purine(x.b))
   /\ BitTnP2(x.a, x.b) <=> (BothKnown(x.a, x.b) /\ Differ(x.a, x.b) /\ Pyrimid(x.a) /\ Pyrimid(x.b))
   /\ ~(Differ(x.a, x.b) /\ SameKnown(x.a, x.b))
   /\ Differ(x.a, x.b) <=> Differ(x.b, x.a)
DecInv == x.kind = "dec" => LET v == Dec9(x.n, x.d) IN
   /\ v >= 0 /\ v <= 1000000000
   /\ (x.n = x.d) => v = 1000000000
   /\ (x.n = 0) => v = 0
   /\ x.d \in {1, 2, 4, 5, 8, 10} => v * x.d = x.n * 1000000000   \* exact finite decimals (small n: no overflow)
CharInv == x.kind = "char" =>
   /\ CompChar(CompChar(x.c)) = x.c
   /\ Upper(x.c) \in Sym
   /\ Dec(Enc(Upper(x.c), FALSE)) = Upper(x.c)
   /\ Dec(Enc(Upper(x.c), TRUE)) = Upper(x.c)
   /\ ((Enc(Upper(x.c), FALSE) & 8) = 8) <=> IsACGT(Upper(x.c))
   /\ Upper(x.c) \in Iupac => Bases(Comp(Upper(x.c))) = {CompBase(b) : b \in Bases(Upper(x.c))}
   /\ Score(Upper(x.c)) \in {3, 4, 6, 12}
ThmInv == x.kind = "thm" =>
   CASE x.n = 1 -> ThmCode64
     [] x.n = 2 -> ThmRevCompTwice
     [] x.n = 3 -> ThmEncInjective
     [] x.n = 4 -> ThmUnambiguousTranslates
     [] x.n = 5 -> NTranslatable = 64 + 112      \* 112 translatable ambiguity codons
     [] x.n = 6 -> Cardinality(Chars) = 32 /\ Cardinality(Sym) = 17
     [] x.n = 7 -> ThmCompSets
     [] x.n = 8 -> ThmKnownBit
     [] x.n = 9 -> ThmRepeat
     [] x.n = 10 -> ThmPad
=============================================================================
