------------------------------ MODULE GenFasta ------------------------------
(* Spec -> code for C16: every stream of <= MaxLines lines over the 11 line     *)
(* kinds of FastaScan, with LF and CRLF line ends, with and without a final     *)
(* line end.                                                                    *)
EXTENDS FastaScan, GenBase
CONSTANTS MaxLines
Name(ls) == LET RECURSIVE S(_) S(k) == IF k = 0 THEN "" ELSE S(k - 1) \o "." \o ls[k] IN S(Len(ls))
VARIABLE v
Init == \E n \in 0..MaxLines : \E ls \in [1..n -> Kinds], crlf \in BOOLEAN, fin \in BOOLEAN :
          /\ (n = MaxLines => fin = (crlf))       \* the longest streams: two of the four layouts
          /\ v = [id |-> "ls" \o Name(ls) \o "-" \o B2S(crlf) \o B2S(fin), lines |-> ls, crlf |-> crlf, finalnl |-> fin]
Next == UNCHANGED v
EmitInv == EmitVec(v)
=============================================================================
