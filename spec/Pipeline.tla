------------------------------ MODULE Pipeline ------------------------------
(***************************************************************************)
(* The reader -> workers -> (workers ->) writer pipeline that every        *)
(* streaming gofasta command is built from (sam toMultiAlign / toPairAlign  *)
(* / variants, variants, snps, updown list), with Main's chain of select    *)
(* loops, the shared unbuffered error channel, the SAM header hand-off and  *)
(* reader / worker / write faults.  One action per critical step of the     *)
(* code; unbuffered channels are rendezvous (one action moves both sides).  *)
(*                                                                          *)
(* A configuration (the variable cfg, fixed in Init) says which command     *)
(* topology is modelled - DESIGN.md Appendix C:                             *)
(*   N        records 0..N-1                                                *)
(*   T        goroutines per worker stage                                   *)
(*   Stages   1 (reader->workers->writer) or 2 (toPairAlign, sam variants)  *)
(*   CapIn    capacity of the reader->stage-1 channel                       *)
(*   CapOut   capacity of the last-stage->writer channel (0 = rendezvous)   *)
(*   Reorder  writer re-orders by record index (FALSE: arrival order)       *)
(*   Header   SAM commands: Main receives the header before its selects     *)
(*   HdrSel   Main selects on the error channel while waiting for the header*)
(*   Skip     records the writer passes over without writing (the           *)
(*            --reference record inside a `variants` alignment)             *)
(*   fault    the one fault this behaviour injects                          *)
(* The write stage counts Write calls so that a fault can hit the header    *)
(* line or any record.                                                      *)
(***************************************************************************)
EXTENDS Integers, Sequences, FiniteSets, TLC
CONSTANTS Configs          \* set of configuration records explored by the model checker

IDLE == -1
Workers(c) == 1..c.T
VARIABLES cfg,
          rd,        \* reader: "hdr" | "run" | "blockedErr" | "done"
          nxt,       \* next record the reader will send
          chIn, closedIn,
          w1, w2,    \* worker stages: [Workers -> [st, rec]], st in idle/busy/ready/blockedErr/exited
          chMid, closedMid,
          chOut, closedOut,
          wr,        \* writer: [st, buf, counter, nwrites, last] st in "hdr" | "recv" | "got" | "flush" | "blockedErr" | "done"
          written,   \* record indices in the order their bytes reached the destination
          main,      \* "waitHdr" | "waitRead" | "waitW1" | "waitW2" | "waitWrite" | "retNil" | "retErr"
          faulted    \* the configured fault has fired
vars == <<cfg, rd, nxt, chIn, closedIn, w1, w2, chMid, closedMid, chOut, closedOut, wr, written, main, faulted>>

Idle == [st |-> "idle", rec |-> IDLE]
InitWith(c) ==
  /\ cfg = c
  /\ rd = IF c.Header THEN "hdr" ELSE "run"
  /\ nxt = 0 /\ chIn = <<>> /\ closedIn = FALSE
  /\ w1 = [t \in Workers(c) |-> Idle]
  /\ w2 = [t \in Workers(c) |-> IF c.Stages = 2 THEN Idle ELSE [st |-> "exited", rec |-> IDLE]]
  /\ chMid = <<>> /\ closedMid = FALSE
  /\ chOut = <<>> /\ closedOut = FALSE
  /\ wr = [st |-> IF c.HdrWrites > 0 THEN "hdr" ELSE "recv", buf |-> {}, counter |-> 0, nwrites |-> 0, last |-> IDLE]
  /\ written = <<>>
  /\ main = IF c.Header THEN "waitHdr" ELSE "waitRead"
  /\ faulted = FALSE
Init == \E c \in Configs : InitWith(c)
ResetTo(c) ==      \* the same state, as an action (trace validation concatenates many runs)
  /\ cfg' = c
  /\ rd' = IF c.Header THEN "hdr" ELSE "run"
  /\ nxt' = 0 /\ chIn' = <<>> /\ closedIn' = FALSE
  /\ w1' = [t \in Workers(c) |-> Idle]
  /\ w2' = [t \in Workers(c) |-> IF c.Stages = 2 THEN Idle ELSE [st |-> "exited", rec |-> IDLE]]
  /\ chMid' = <<>> /\ closedMid' = FALSE
  /\ chOut' = <<>> /\ closedOut' = FALSE
  /\ wr' = [st |-> IF c.HdrWrites > 0 THEN "hdr" ELSE "recv", buf |-> {}, counter |-> 0, nwrites |-> 0, last |-> IDLE]
  /\ written' = <<>>
  /\ main' = IF c.Header THEN "waitHdr" ELSE "waitRead"
  /\ faulted' = FALSE

Alive == main \notin {"retNil", "retErr"}
Selecting == main \in {"waitRead", "waitW1", "waitW2", "waitWrite"} \/ (main = "waitHdr" /\ cfg.HdrSel)
F == cfg.fault
Fires(kind, at) == F.kind = kind /\ F.at = at /\ ~faulted
(* The SAM reader (groupSamRecords) groups the records of one query: it hands block j - 1 on only after it has read   *)
(* record j, so a record it cannot parse is met when one block fewer has been sent than records read.                *)
Look == IF cfg.Header THEN 1 ELSE 0
RdFires(n) == F.kind = "rd" /\ ~faulted /\ n = (IF F.at > Look THEN F.at - Look ELSE 0)

(* ---- reader ---------------------------------------------------------------- *)
ReaderHeader ==   \* cHeader <- header  ||  Main: header := <-cSH
  /\ rd = "hdr" /\ main = "waitHdr" /\ ~Fires("rdhdr", 0)
  /\ rd' = "run" /\ main' = "waitRead"
  /\ UNCHANGED <<cfg, nxt, chIn, closedIn, w1, w2, chMid, closedMid, chOut, closedOut, wr, written, faulted>>
ReaderHeaderErr ==   \* the stream has no valid header: cerr <- err (blocks until Main selects)
  /\ rd = "hdr" /\ Fires("rdhdr", 0)
  /\ rd' = "blockedErr" /\ faulted' = TRUE
  /\ UNCHANGED <<cfg, nxt, chIn, closedIn, w1, w2, chMid, closedMid, chOut, closedOut, wr, written, main>>
ReaderSend ==
  /\ rd = "run" /\ nxt < cfg.N /\ ~RdFires(nxt)
  /\ \/ /\ cfg.CapIn > 0 /\ Len(chIn) < cfg.CapIn
        /\ chIn' = Append(chIn, nxt) /\ w1' = w1
     \/ /\ cfg.CapIn = 0
        /\ \E t \in Workers(cfg) : w1[t].st = "idle" /\ w1' = [w1 EXCEPT ![t] = [st |-> "busy", rec |-> nxt]]
        /\ chIn' = chIn
  /\ nxt' = nxt + 1
  /\ UNCHANGED <<cfg, rd, closedIn, w2, chMid, closedMid, chOut, closedOut, wr, written, main, faulted>>
ReaderErr ==    \* invalid record: cerr <- err
  /\ rd = "run" /\ nxt < cfg.N /\ RdFires(nxt)
  /\ rd' = "blockedErr" /\ faulted' = TRUE
  /\ UNCHANGED <<cfg, nxt, chIn, closedIn, w1, w2, chMid, closedMid, chOut, closedOut, wr, written, main>>
ReaderDone ==   \* cdone <- true  ||  Main: close(chIn)
  /\ rd = "run" /\ nxt = cfg.N /\ main = "waitRead"
  /\ rd' = "done" /\ closedIn' = TRUE /\ main' = "waitW1"
  /\ UNCHANGED <<cfg, nxt, chIn, w1, w2, chMid, closedMid, chOut, closedOut, wr, written, faulted>>

(* ---- stage-1 workers --------------------------------------------------------- *)
W1Recv(t) ==
  /\ w1[t].st = "idle" /\ chIn # <<>>
  /\ w1' = [w1 EXCEPT ![t] = [st |-> "busy", rec |-> Head(chIn)]] /\ chIn' = Tail(chIn)
  /\ UNCHANGED <<cfg, rd, nxt, closedIn, w2, chMid, closedMid, chOut, closedOut, wr, written, main, faulted>>
W1Ready(t) ==   \* the kernel has run; the hook fires immediately before the channel send
  /\ w1[t].st = "busy" /\ ~Fires("wk1", w1[t].rec)
  /\ w1' = [w1 EXCEPT ![t].st = "ready"]
  /\ UNCHANGED <<cfg, rd, nxt, chIn, closedIn, w2, chMid, closedMid, chOut, closedOut, wr, written, main, faulted>>
W1Err(t) ==
  /\ w1[t].st = "busy" /\ Fires("wk1", w1[t].rec)
  /\ w1' = [w1 EXCEPT ![t].st = "blockedErr"] /\ faulted' = TRUE
  /\ UNCHANGED <<cfg, rd, nxt, chIn, closedIn, w2, chMid, closedMid, chOut, closedOut, wr, written, main>>
W1Exit(t) ==
  /\ w1[t].st = "idle" /\ chIn = <<>> /\ closedIn
  /\ w1' = [w1 EXCEPT ![t].st = "exited"]
  /\ UNCHANGED <<cfg, rd, nxt, chIn, closedIn, w2, chMid, closedMid, chOut, closedOut, wr, written, main, faulted>>
W1Done ==       \* wg.Wait(); cWaitGroupDone <- true  ||  Main: close(next channel)
  /\ main = "waitW1" /\ \A t \in Workers(cfg) : w1[t].st = "exited"
  /\ IF cfg.Stages = 2 THEN closedMid' = TRUE /\ main' = "waitW2" /\ closedOut' = closedOut
                       ELSE closedOut' = TRUE /\ main' = "waitWrite" /\ closedMid' = closedMid
  /\ UNCHANGED <<cfg, rd, nxt, chIn, closedIn, w1, w2, chMid, chOut, wr, written, faulted>>

(* delivery of record r into the channel feeding the writer, or straight to the writer when CapOut = 0 *)
WriterTakes(r) == wr' = [wr EXCEPT !.st = "got", !.buf = @ \cup {r}, !.last = r]
ToWriter(r) ==
  \/ /\ cfg.CapOut > 0 /\ Len(chOut) < cfg.CapOut /\ chOut' = Append(chOut, r) /\ wr' = wr
  \/ /\ cfg.CapOut = 0 /\ wr.st = "recv" /\ chOut' = chOut /\ WriterTakes(r)

(* stage 1 -> stage 2 (unbuffered) or stage 1 -> writer *)
W1Send(t) ==
  /\ w1[t].st = "ready"
  /\ IF cfg.Stages = 2
     THEN /\ \E u \in Workers(cfg) : w2[u].st = "idle" /\ w2' = [w2 EXCEPT ![u] = [st |-> "busy", rec |-> w1[t].rec]]
          /\ UNCHANGED <<chOut, wr>>
     ELSE ToWriter(w1[t].rec) /\ w2' = w2
  /\ w1' = [w1 EXCEPT ![t] = Idle]
  /\ UNCHANGED <<cfg, rd, nxt, chIn, closedIn, chMid, closedMid, closedOut, written, main, faulted>>

(* ---- stage-2 workers (toPairAlign: trimAlignment; sam variants: getVariantsSam) ---- *)
W2Ready(t) ==
  /\ cfg.Stages = 2 /\ w2[t].st = "busy" /\ ~Fires("wk2", w2[t].rec)
  /\ w2' = [w2 EXCEPT ![t].st = "ready"]
  /\ UNCHANGED <<cfg, rd, nxt, chIn, closedIn, w1, chMid, closedMid, chOut, closedOut, wr, written, main, faulted>>
W2Err(t) ==
  /\ cfg.Stages = 2 /\ w2[t].st = "busy" /\ Fires("wk2", w2[t].rec)
  /\ w2' = [w2 EXCEPT ![t].st = "blockedErr"] /\ faulted' = TRUE
  /\ UNCHANGED <<cfg, rd, nxt, chIn, closedIn, w1, chMid, closedMid, chOut, closedOut, wr, written, main>>
W2Send(t) ==
  /\ cfg.Stages = 2 /\ w2[t].st = "ready"
  /\ ToWriter(w2[t].rec)
  /\ w2' = [w2 EXCEPT ![t] = Idle]
  /\ UNCHANGED <<cfg, rd, nxt, chIn, closedIn, w1, chMid, closedMid, closedOut, written, main, faulted>>
W2Exit(t) ==
  /\ cfg.Stages = 2 /\ w2[t].st = "idle" /\ closedMid
  /\ w2' = [w2 EXCEPT ![t].st = "exited"]
  /\ UNCHANGED <<cfg, rd, nxt, chIn, closedIn, w1, chMid, closedMid, chOut, closedOut, wr, written, main, faulted>>
W2Done ==
  /\ cfg.Stages = 2 /\ main = "waitW2" /\ \A t \in Workers(cfg) : w2[t].st = "exited"
  /\ closedOut' = TRUE /\ main' = "waitWrite"
  /\ UNCHANGED <<cfg, rd, nxt, chIn, closedIn, w1, w2, chMid, closedMid, chOut, wr, written, faulted>>

(* ---- writer ------------------------------------------------------------------- *)
WriteFails(k) == F.kind = "wr" /\ ~faulted /\ F.at = k        \* the k-th Write call returns an error
WriterHeader ==      \* the CSV header line, written before the receive loop
  /\ wr.st = "hdr" /\ ~WriteFails(wr.nwrites + 1)
  /\ wr' = [wr EXCEPT !.st = "recv", !.nwrites = @ + 1]
  /\ UNCHANGED <<cfg, rd, nxt, chIn, closedIn, w1, w2, chMid, closedMid, chOut, closedOut, written, main, faulted>>
WriterRecv ==        \* buffered channel: take the head
  /\ wr.st = "recv" /\ chOut # <<>>
  /\ WriterTakes(Head(chOut)) /\ chOut' = Tail(chOut)
  /\ UNCHANGED <<cfg, rd, nxt, chIn, closedIn, w1, w2, chMid, closedMid, closedOut, written, main, faulted>>
WriterAck ==         \* top of the loop body (the Recv hook fires here): the record is filed, flushing may start
  /\ wr.st = "got"
  /\ wr' = [wr EXCEPT !.st = "flush"]
  /\ UNCHANGED <<cfg, rd, nxt, chIn, closedIn, w1, w2, chMid, closedMid, chOut, closedOut, written, main, faulted>>
NextToWrite == IF cfg.Reorder THEN wr.counter ELSE (CHOOSE r \in wr.buf : TRUE)
CanWrite == wr.st = "flush" /\ (IF cfg.Reorder THEN wr.counter \in wr.buf ELSE wr.buf # {})
Skipped(r) == r \in cfg.Skip
WritesOf(r) == IF Skipped(r) THEN 0 ELSE cfg.WritesPer
WriterWrite ==       \* one record: its Write calls succeed (a skipped record is only dropped from the buffer)
  /\ CanWrite
  /\ \A k \in (wr.nwrites + 1)..(wr.nwrites + WritesOf(NextToWrite)) : ~WriteFails(k)
  /\ wr' = [wr EXCEPT !.buf = @ \ {NextToWrite}, !.counter = @ + 1, !.nwrites = @ + WritesOf(NextToWrite)]
  /\ written' = IF Skipped(NextToWrite) THEN written ELSE Append(written, NextToWrite)
  /\ UNCHANGED <<cfg, rd, nxt, chIn, closedIn, w1, w2, chMid, closedMid, chOut, closedOut, main, faulted>>
WriterWriteFail ==   \* a Write call returns an error: cerr <- err
  /\ \/ wr.st = "hdr" /\ WriteFails(wr.nwrites + 1)
     \/ CanWrite /\ \E k \in (wr.nwrites + 1)..(wr.nwrites + WritesOf(NextToWrite)) : WriteFails(k)
  /\ wr' = [wr EXCEPT !.st = "blockedErr"] /\ faulted' = TRUE
  /\ UNCHANGED <<cfg, rd, nxt, chIn, closedIn, w1, w2, chMid, closedMid, chOut, closedOut, written, main>>
WriterFlushed ==     \* nothing more to write for now: back to the receive
  /\ wr.st = "flush" /\ ~CanWrite
  /\ wr' = [wr EXCEPT !.st = "recv"]
  /\ UNCHANGED <<cfg, rd, nxt, chIn, closedIn, w1, w2, chMid, closedMid, chOut, closedOut, written, main, faulted>>
WriterDone ==        \* range over a closed, drained channel ends: cdone <- true  ||  Main returns nil
  /\ wr.st = "recv" /\ chOut = <<>> /\ closedOut /\ main = "waitWrite"
  /\ wr' = [wr EXCEPT !.st = "done"] /\ main' = "retNil"
  /\ UNCHANGED <<cfg, rd, nxt, chIn, closedIn, w1, w2, chMid, closedMid, chOut, closedOut, written, faulted>>

(* ---- Main receives from the error channel ---------------------------------------- *)
ErrPending == \/ rd = "blockedErr" \/ wr.st = "blockedErr"
              \/ \E t \in Workers(cfg) : w1[t].st = "blockedErr" \/ w2[t].st = "blockedErr"
MainRecvErr ==
  /\ Alive /\ Selecting /\ ErrPending
  /\ main' = "retErr"
  /\ UNCHANGED <<cfg, rd, nxt, chIn, closedIn, w1, w2, chMid, closedMid, chOut, closedOut, wr, written, faulted>>

Next == /\ Alive
        /\ \/ ReaderHeader \/ ReaderHeaderErr \/ ReaderSend \/ ReaderErr \/ ReaderDone
           \/ \E t \in Workers(cfg) : W1Recv(t) \/ W1Ready(t) \/ W1Err(t) \/ W1Send(t) \/ W1Exit(t)
           \/ \E t \in Workers(cfg) : W2Ready(t) \/ W2Err(t) \/ W2Send(t) \/ W2Exit(t)
           \/ W1Done \/ W2Done
           \/ WriterHeader \/ WriterRecv \/ WriterAck \/ WriterWrite \/ WriterWriteFail \/ WriterFlushed \/ WriterDone
           \/ MainRecvErr
Spec == Init /\ [][Next]_vars /\ WF_vars(Next)

(* ---- properties -------------------------------------------------------------------- *)
Expected == SelectSeq([k \in 1..cfg.N |-> k - 1], LAMBDA r : r \notin cfg.Skip)   \* what a complete output holds, in input order
OrderInv == Len(written) <= Len(Expected) /\ written = SubSeq(Expected, 1, Len(written))   \* C12: output is a prefix of the input order
DoneOK   == main = "retNil" => /\ written = Expected                             \* C12/C18/C19: success means complete, in order,
                               /\ ~faulted                                       \*   and nothing failed
NoLostRecord == \A r \in 0..(cfg.N - 1) :                                        \* every record is somewhere until written
   (r < nxt /\ ~faulted) =>
      \/ r \in wr.buf \/ (r \in cfg.Skip /\ r < wr.counter)
      \/ (\E k \in 1..Len(written) : written[k] = r)
      \/ (\E j \in 1..Len(chIn) : chIn[j] = r)
      \/ (\E m \in 1..Len(chOut) : chOut[m] = r)
      \/ (\E t \in Workers(cfg) : w1[t].rec = r \/ w2[t].rec = r)
NoSendOnClosed == /\ (closedIn => rd = "done")
                  /\ (closedOut => \A t \in Workers(cfg) : w1[t].st = "exited" /\ w2[t].st = "exited")
ErrSafety == main = "retErr" => faulted
Termination == <>(main \in {"retNil", "retErr"})                                 \* C18: terminates promptly
ErrReported == faulted ~> (main = "retErr")                                      \* C18/C19: every error reaches Main
=============================================================================
