----------------------------- MODULE ObsVariants -----------------------------
(* Code -> spec for variants / sam variants.  One observation = one abstract     *)
(* alignment + annotation run under several option sets.  Clause prefixes:      *)
(*   C04-  nucleotide differences complete and sound; aa calls sound + complete  *)
(*   C05-  indels in reference coordinates                                       *)
(*   C11-  sam variants = variants on the toPairAlign / MSA form                 *)
(*   C13-  --aggregate = per-sequence results, counted                           *)
(*   C14-  GenBank and GFF3 descriptions give the same mutations                 *)
(*   C15-  --start / --end keep exactly the mutations inside the window; stdin   *)
EXTENDS Variants, Distance, ObsBase
VARIABLES l, nbad

(* ---- the annotation as the spec sees it ------------------------------------------ *)
RECURSIVE SegPos(_, _, _)
SegPos(segs, strand, k) ==
  IF k > Len(segs) THEN <<>>
  ELSE (IF strand = 1 THEN [i \in 1..(segs[k][2] - segs[k][1] + 1) |-> segs[k][1] + i - 1]
                      ELSE [i \in 1..(segs[k][2] - segs[k][1] + 1) |-> segs[k][2] - i + 1]) \o SegPos(segs, strand, k + 1)
FeatOf(f) == LET all == SegPos(f.segs, f.strand, 1) IN [name |-> f.name, strand |-> f.strand, pos |-> SubSeq(all, f.cstart, Len(all))]
Named(v) == LET fs == SelectSeq(v.feats, LAMBDA f : f.named) IN [i \in 1..Len(fs) |-> FeatOf(fs[i])]

(* The SAM form of a query does not cover the reference bases left of its first and right of its last base: *)
(* sam toPairAlign shows them as N, where the MSA form has '-'.                                              *)
SamQ(R, Q) ==
  LET has == {j \in 1..Len(Q) : Q[j] # "-"}
      first == IF has = {} THEN Len(Q) + 1 ELSE CHOOSE j \in has : \A x \in has : j <= x
      last == IF has = {} THEN 0 ELSE CHOOSE j \in has : \A x \in has : j >= x
  IN [j \in 1..Len(Q) |-> IF (j < first \/ j > last) /\ R[j] # "-" THEN "N" ELSE Q[j]]
FormOf(v, feats, Q) == [Q |-> Q, snps |-> SnpPositions(v.R, Q), indels |-> IndelsOf(v.R, Q), aas |-> AAChanges(v.R, Q, feats)]
Ctx(v) ==
  LET feats == TLCEval(Named(v))
      n == Len(v.qs)
  IN [feats |-> feats,
      M |-> TLCEval([q \in 1..n |-> FormOf(v, feats, v.qs[q])]),
      S |-> TLCEval([q \in 1..n |-> FormOf(v, feats, SamQ(v.R, v.qs[q]))])]
Form(c, r) == IF r.cmd \in {"variants", "variants-annoref"} THEN c.M ELSE c.S

Muts(row) == row.muts
OfType(ms, T) == SelectSeq(ms, LAMBDA m : m.t \in T)

(* ---- C05 ------------------------------------------------------------------------------ *)
IndelsOK(fq, ms) ==
  LET io == OfType(ms, {"ins", "del"}) IN
  /\ {[type |-> io[i].t, pos |-> io[i].p, len |-> io[i].l] : i \in 1..Len(io)} = fq.indels
  /\ Len(io) = Cardinality(fq.indels)

(* ---- C04 ------------------------------------------------------------------------------ *)
NucTrue(v, fq, r, p, a) == p \in 1..NRef(v.R) /\ IsSnp(v.R, fq.Q, p) /\ r = RAt(v.R, p) /\ a = QAt(v.R, fq.Q, p)
NucOK(v, c, fq, ms, app) ==
  LET nucs == OfType(ms, {"nuc"})  aa == OfType(ms, {"aa"})
      nucpos == {nucs[i].p : i \in 1..Len(nucs)}
      listed == UNION {{aa[i].snps[j][2] : j \in 1..Len(aa[i].snps)} : i \in 1..Len(aa)}
      codonpos == UNION {CodonPositionsOf(c.feats, aa[i].f, aa[i].k) : i \in 1..Len(aa)}
  IN /\ \A i \in 1..Len(nucs) : NucTrue(v, fq, nucs[i].r, nucs[i].p, nucs[i].a)                    \* none invented
     /\ \A i \in 1..Len(aa) : \A j \in 1..Len(aa[i].snps) : NucTrue(v, fq, aa[i].snps[j][1], aa[i].snps[j][2], aa[i].snps[j][3])
     /\ IF app THEN nucpos \cup listed = fq.snps                                                   \* none dropped
               ELSE fq.snps \subseteq nucpos \cup codonpos
     /\ Len(nucs) = Cardinality(nucpos)                                                            \* each once
AaOK(fq, ms) ==
  LET aa == OfType(ms, {"aa"}) IN
  /\ {<<aa[i].f, aa[i].k, aa[i].r, aa[i].a>> : i \in 1..Len(aa)} = fq.aas
  /\ Len(aa) = Cardinality(fq.aas)
NoJunk(ms) == \A i \in 1..Len(ms) : ms[i].t \in {"ins", "del", "nuc", "aa"}

(* the position a record is sorted / filtered by; -1 = cannot be told from the output (codon straddling a join) *)
PosOfMut(c, m) ==
  IF m.t # "aa" THEN m.p
  ELSE LET fi == {i \in 1..Len(c.feats) : c.feats[i].name = m.f /\ m.k <= NCodons(c.feats[i])}
           posIn(i) == LET f == c.feats[i]  cp == CodonPos(f, m.k) IN
                       IF cp[2] = cp[1] + f.strand /\ cp[3] = cp[2] + f.strand THEN cp[1] ELSE -1
           ps == {posIn(i) : i \in fi}
       IN IF Cardinality(ps) = 1 THEN CHOOSE p \in ps : TRUE ELSE -1      \* (two CDS of one gene may number the same codon differently)
Sorted(c, ms) == \A i, j \in 1..Len(ms) : (i < j /\ PosOfMut(c, ms[i]) # -1 /\ PosOfMut(c, ms[j]) # -1) => PosOfMut(c, ms[i]) <= PosOfMut(c, ms[j])

(* ---- relations between real runs ------------------------------------------------------ *)
Texts(ms) == [i \in 1..Len(ms) |-> ms[i].text]
Bag(ms) == [t \in ToSet(Texts(ms)) |-> Cardinality({i \in 1..Len(ms) : ms[i].text = t})]
IsGff(a) == a \in {"gff", "gffs"}        \* gffs: the same GFF3 with its rows in coordinate order (rows of one CDS need not be adjacent)
SameRun(a, b, ignoreAnno, ignoreCmd) ==
  /\ (ignoreCmd \/ a.cmd = b.cmd) /\ (ignoreAnno \/ a.anno = b.anno) /\ a.append = b.append /\ a.s = b.s /\ a.e = b.e /\ a.agg = b.agg /\ a.thr = b.thr
RowsByQ(ro) == [q \in {ro.rows[i].qi : i \in 1..Len(ro.rows)} |-> (CHOOSE i \in 1..Len(ro.rows) : ro.rows[i].qi = q)]
RowFor(ro, q) == ro.rows[CHOOSE i \in 1..Len(ro.rows) : ro.rows[i].qi = q]
HasRow(ro, q) == \E i \in 1..Len(ro.rows) : ro.rows[i].qi = q
(* C14: same multiset per sequence, both sorted by position *)
GbGffOK(c, a, b) ==
  /\ a.err = "" /\ b.err = ""
  /\ Len(a.rows) = Len(b.rows)
  /\ \A i \in 1..Len(a.rows) : a.rows[i].qi = b.rows[i].qi /\ Bag(a.rows[i].muts) = Bag(b.rows[i].muts)
(* C11: identical lists *)
SameListsOK(a, b) ==
  /\ (a.err = "") = (b.err = "")            \* both refused: another clause's business (C14-gff-rejected, C04-error)
  /\ Len(a.rows) = Len(b.rows)
  /\ \A i \in 1..Len(a.rows) : a.rows[i].qi = b.rows[i].qi /\ Texts(a.rows[i].muts) = Texts(b.rows[i].muts)
(* the SAM form has no record for a query without an aligned base: compare the rows the SAM run has *)
SubsetListsOK(c, sub, full) ==
  /\ (sub.err = "") = (full.err = "")
  /\ \A i \in 1..Len(sub.rows) : LET q == sub.rows[i].qi + 1 IN
        (q \in 1..Len(c.M) /\ c.M[q].Q = c.S[q].Q) =>       \* the row placed in an MSA is the same alignment only then
           HasRow(full, sub.rows[i].qi) /\ Texts(RowFor(full, sub.rows[i].qi).muts) = Texts(sub.rows[i].muts)
(* C15: the windowed run keeps exactly the in-window mutations of the unwindowed real run, in the same order *)
WindowOK(c, r, w, base) ==
  /\ w.err = "" /\ base.err = ""
  /\ Len(w.rows) = Len(base.rows)
  /\ \A i \in 1..Len(base.rows) :
       LET bm == base.rows[i].muts
           sure == SelectSeq(bm, LAMBDA m : PosOfMut(c, m) # -1 /\ InWindow(PosOfMut(c, m), r.s, r.e))
           maybe == SelectSeq(bm, LAMBDA m : PosOfMut(c, m) = -1 \/ InWindow(PosOfMut(c, m), r.s, r.e))
       IN /\ w.rows[i].qi = base.rows[i].qi
          /\ IF Len(sure) = Len(maybe) THEN Texts(w.rows[i].muts) = Texts(sure)
             ELSE ToSet(Texts(sure)) \subseteq ToSet(Texts(w.rows[i].muts)) /\ ToSet(Texts(w.rows[i].muts)) \subseteq ToSet(Texts(maybe))
(* C13: aggregate = per-sequence real run, counted *)
AggOK(c, r, ag, per) ==
  LET n == Len(per.rows)
      all == UNION {ToSet(Texts(per.rows[i].muts)) : i \in 1..n}
      cnt(t) == Cardinality({i \in 1..n : t \in ToSet(Texts(per.rows[i].muts))})
      kept == {t \in all : IF Has(r, "thr9") THEN Floor9(cnt(t), n) >= r.thr9       \* a threshold given with nine decimals
                                                ELSE cnt(t) * 1000 >= r.thr * n}
      lines == ag.agg
  IN /\ ag.err = "" /\ per.err = "" /\ ag.header = "mutation,frequency"
     /\ {lines[i].mut.text : i \in 1..Len(lines)} = kept
     /\ Len(lines) = Cardinality(kept)
     /\ \A i \in 1..Len(lines) : lines[i].mut.text \in kept => lines[i].freq = Dec9(cnt(lines[i].mut.text), n)
     /\ Sorted(c, [i \in 1..Len(lines) |-> lines[i].mut])

FindRun(v, P(_)) == {k \in 1..Len(v.runs) : P(v.runs[k])}
Gapless(R) == \A j \in 1..Len(R) : R[j] # "-"

FailedRun(v, c, k, o) ==
  LET r == v.runs[k]  ro == o.runs[k]
      plainOf == FindRun(v, LAMBDA x : x.cmd = r.cmd /\ x.anno = r.anno /\ x.append = r.append /\ ~x.agg /\ x.s = -1 /\ x.e = -1 /\ ~x.stdin)
      wiring == IF ~CliBad(ro) THEN {} ELSE
                  (IF r.agg THEN {"C13-cli-wiring"} ELSE IF r.s # -1 \/ r.e # -1 THEN {"C15-cli-wiring"} ELSE {"C04-cli-wiring", "C05-cli-wiring"})
                  \cup (IF IsGff(r.anno) THEN {"C14-cli-wiring"} ELSE {}) \cup (IF r.cmd = "samvar" THEN {"C11-cli-wiring"} ELSE {})
  IN
  wiring \cup
  IF r.agg THEN
     (LET per == FindRun(v, LAMBDA x : x.cmd = r.cmd /\ x.anno = r.anno /\ x.append = r.append /\ ~x.agg /\ x.s = r.s /\ x.e = r.e /\ ~x.stdin) IN
      IF per # {} /\ ~AggOK(c, r, ro, o.runs[CHOOSE x \in per : TRUE]) THEN {"C13-aggregate"} ELSE {})
  ELSE IF r.s # -1 \/ r.e # -1 THEN
     (IF plainOf # {} /\ ~WindowOK(c, r, ro, o.runs[CHOOSE x \in plainOf : TRUE]) THEN {"C15-window-filter"} ELSE {})
     \cup (IF r.cmd = "topa-variants"      \* C11 under a window: the FASTA form of the alignment through variants with the same window
           THEN LET g == FindRun(v, LAMBDA x : x.cmd = "samvar" /\ SameRun(x, r, FALSE, TRUE)) IN
                IF g # {} /\ ~SameListsOK(o.runs[CHOOSE x \in g : TRUE], ro) THEN {"C11-sam-vs-pair"} ELSE {}
           ELSE {})
  ELSE IF r.stdin THEN
     (IF plainOf # {} /\ ~SameListsOK(ro, o.runs[CHOOSE x \in plainOf : TRUE]) THEN {"C15-stdin"} ELSE {})
  ELSE
     (IF ro.err # "" \/ ro.header # "query,mutations" THEN {IF IsGff(r.anno) THEN "C14-gff-rejected" ELSE "C04-error"}
      ELSE
        (IF r.cmd \in {"variants", "variants-annoref"}
         THEN (IF Len(ro.rows) = Len(v.qs) /\ \A i \in 1..Len(ro.rows) : ro.rows[i].qi = i - 1 THEN {} ELSE {"C04-row-per-query"})
         ELSE (IF Len(ro.rows) = o.nsam /\ \A i \in 1..(Len(ro.rows) - 1) : ro.rows[i].qi < ro.rows[i + 1].qi THEN {} ELSE {"C04-row-per-query"}))
        \cup (IF \A i \in 1..Len(ro.rows) : ro.rows[i].qi \in 0..(Len(v.qs) - 1) => NoJunk(ro.rows[i].muts) /\ IndelsOK(Form(c, r)[ro.rows[i].qi + 1], ro.rows[i].muts) THEN {} ELSE {"C05-indels"})
        \cup (IF \A i \in 1..Len(ro.rows) : ro.rows[i].qi \in 0..(Len(v.qs) - 1) => NucOK(v, c, Form(c, r)[ro.rows[i].qi + 1], ro.rows[i].muts, r.append) THEN {} ELSE {"C04-nuc"})
        \cup (IF \A i \in 1..Len(ro.rows) : ro.rows[i].qi \in 0..(Len(v.qs) - 1) => AaOK(Form(c, r)[ro.rows[i].qi + 1], ro.rows[i].muts) THEN {} ELSE {"C04-aa"})
        \cup (IF \A i \in 1..Len(ro.rows) : Sorted(c, ro.rows[i].muts) THEN {} ELSE {"C14-sorted"}))
     \cup (IF IsGff(r.anno) /\ r.cmd \in {"variants", "samvar", "samvar-annoref"}
           THEN LET g == FindRun(v, LAMBDA x : x.anno = "gb" /\ SameRun(x, r, TRUE, FALSE) /\ ~x.stdin) IN
                IF g # {} /\ ~GbGffOK(c, o.runs[CHOOSE x \in g : TRUE], ro) THEN {"C14-gb-vs-gff"} ELSE {}
           ELSE {})
     \cup (IF r.anno = "gffs" /\ r.cmd \in {"variants", "samvar"}
           THEN LET g == FindRun(v, LAMBDA x : x.anno = "gff" /\ SameRun(x, r, TRUE, FALSE) /\ ~x.stdin) IN
                IF g # {} /\ ~GbGffOK(c, o.runs[CHOOSE x \in g : TRUE], ro) THEN {"C14-gff-row-order"} ELSE {}
           ELSE {})
     \cup (IF r.cmd = "topa-variants"
           THEN LET g == FindRun(v, LAMBDA x : x.cmd = "samvar" /\ SameRun(x, r, FALSE, TRUE)) IN
                IF g # {} /\ ~SameListsOK(o.runs[CHOOSE x \in g : TRUE], ro) THEN {"C11-sam-vs-pair"} ELSE {}
           ELSE {})
     \cup (IF r.cmd = "samvar" /\ Gapless(v.R)
           THEN LET g == FindRun(v, LAMBDA x : x.cmd = "variants" /\ SameRun(x, r, FALSE, TRUE) /\ ~x.stdin) IN
                IF g # {} /\ ~SubsetListsOK(c, ro, o.runs[CHOOSE x \in g : TRUE]) THEN {"C11-sam-vs-msa"} ELSE {}
           ELSE {})
     \cup (IF r.cmd = "samvar-annoref" /\ Gapless(v.R)     \* both take the reference from the annotation: a query may then carry any name, the SAM reference's included
           THEN LET g == FindRun(v, LAMBDA x : x.cmd = "variants-annoref" /\ SameRun(x, r, FALSE, TRUE)) IN
                IF g # {} /\ ~SubsetListsOK(c, ro, o.runs[CHOOSE x \in g : TRUE]) THEN {"C11-sam-vs-msa"} ELSE {}
           ELSE {})
     \cup (IF r.cmd = "samvar-annoref"
           THEN LET g == FindRun(v, LAMBDA x : x.cmd = "samvar" /\ SameRun(x, r, FALSE, TRUE)) IN
                IF g # {} /\ ~SameListsOK(o.runs[CHOOSE x \in g : TRUE], ro) THEN {"C11-reference-source"} ELSE {}
           ELSE {})

Failed(o) ==
  IF o.obs.panic THEN {"panic"} ELSE IF o.obs.timeout THEN {"timeout"} ELSE
  LET c == Ctx(o.vec) IN UNION {FailedRun(o.vec, c, k, o.obs) : k \in 1..Len(o.vec.runs)}

Sig(o, cl) == cl \o ":" \o o.vec.kind \o
  (IF o.vec.kind = "anno" /\ \E i \in 1..Len(o.vec.feats) : ~o.vec.feats[i].named THEN "+unnamed-cds" ELSE "") \o
  (IF o.vec.kind = "anno" /\ \E i \in 1..Len(o.vec.feats) : Len(o.vec.feats[i].segs) > 1 THEN "+joined" ELSE "") \o
  (IF ~Gapless(o.vec.R) THEN "+refgaps" ELSE "")

Init == l = 1 /\ nbad = 0
Next == /\ l <= Len(Trace)
        /\ LET o == Trace[l]  bad == Failed(o) IN
             /\ \A cl \in bad : Emit(FailFile, [line |-> l, id |-> o.id, clause |-> cl, signature |-> Sig(o, cl)])
             /\ nbad' = nbad + Cardinality(bad)
        /\ l' = l + 1
Post == TLCGet("stats").diameter = Len(Trace) + 1
=============================================================================
