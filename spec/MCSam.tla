------------------------------- MODULE MCSam -------------------------------
(* The machines of sam.go / cigar.go / toma.go, stepped by TLC, against the    *)
(* per-position definitions of Sam.tla:                                        *)
(*   walk   - getOneLine: cursors q, r and the row so far, one action per      *)
(*            CIGAR operation, for every SAM-valid CIGAR of <= MaxOps          *)
(*            operations over all nine operators with lengths 1..2 at POS 0..2 *)
(*   site   - getNucFromSite: every set of symbols a column can hold           *)
(*   flank  - swapInGapsNs / swapInNs + window: every row over {A, C, -, *}    *)
(*            with at least one letter, pad on/off, every window               *)
EXTENDS Sam
CONSTANTS MaxOps, L, FlankLen
VARIABLES x, k, q, r, row, pc
vars == <<x, k, q, r, row, pc>>
Pattern == <<"A","C","G","T","T","G","C","A","A","G","C","T","C","A","G","T">>
OpLen == Ops \X (1..2)
Cigars == UNION {[1..n -> OpLen] : n \in 1..MaxOps}
Sym4 == {"A", "C", "-", "*"}

Init == /\ \/ \E c \in Cigars, p \in 0..2 :
                /\ SamValid(c, QryLen(c)) /\ p + RefSpan(c) <= L /\ QryLen(c) <= Len(Pattern)
                /\ x = [kind |-> "walk", pos |-> p, cig |-> c, seq |-> SubSeq(Pattern, 1, QryLen(c)), q |-> 0, flag |-> 0]
           \/ \E S \in (SUBSET Sym4) \ {{}} : x = [kind |-> "site", col |-> S]
           \/ \E n \in 1..FlankLen : \E rw \in [1..n -> Sym4], pad \in BOOLEAN, s \in 1..n, e \in 1..n :
                /\ s <= e /\ HasLetter(rw)
                /\ x = [kind |-> "flank", row |-> rw, pad |-> pad, s |-> s, e |-> e]
        /\ k = 1 /\ q = 0 /\ pc = "run"
        /\ r = IF x.kind = "walk" THEN x.pos ELSE 0
        /\ row = IF x.kind = "walk" THEN [i \in 1..x.pos |-> "*"] ELSE <<>>
(* one action per operator, as in the code's operator table *)
Step(opset) == /\ pc = "run" /\ x.kind = "walk" /\ k <= Len(x.cig) /\ x.cig[k][1] \in opset
               /\ LET w == WalkStep(x.cig, k, x.seq, q, r, row) IN q' = w[1] /\ r' = w[2] /\ row' = w[3]
               /\ k' = k + 1 /\ UNCHANGED <<x, pc>>
OpM == Step({"M"})  OpEq == Step({"="})  OpX == Step({"X"})  OpI == Step({"I"})  OpD == Step({"D"})
OpN == Step({"N"})  OpS == Step({"S"})  OpH == Step({"H"})  OpP == Step({"P"})
RightPad == /\ pc = "run" /\ x.kind = "walk" /\ k = Len(x.cig) + 1
            /\ row' = row \o [i \in 1..(L - Len(row)) |-> "*"] /\ pc' = "done" /\ UNCHANGED <<x, k, q, r>>
Next == OpM \/ OpEq \/ OpX \/ OpI \/ OpD \/ OpN \/ OpS \/ OpH \/ OpP \/ RightPad
Spec == Init /\ [][Next]_vars

(* getNucFromSite as coded: more than one distinct letter -> N, otherwise the largest byte (letters > '-' > '*') *)
Byte(s) == CASE s = "*" -> 42 [] s = "-" -> 45 [] s = "A" -> 65 [] s = "C" -> 67
SiteMachine(S) == IF Cardinality({s \in S : Byte(s) >= 65}) > 1 THEN "N"
                  ELSE CHOOSE s \in S : \A t \in S : Byte(t) <= Byte(s)
(* swapInGapsNs as coded (0-based indices; both default to 0), then the window *)
FlankMachine(rw, pad) ==
  LET n == Len(rw)
      letters == {i \in 0..(n - 1) : IsLetter(rw[i + 1])}
      first == IF letters = {} THEN 0 ELSE CHOOSE i \in letters : \A j \in letters : i <= j
      last == IF letters = {} THEN 0 ELSE CHOOSE i \in letters : \A j \in letters : i >= j
  IN IF pad THEN [i \in 1..n |-> IF rw[i] = "*" THEN "N" ELSE rw[i]]
     ELSE [i \in 1..n |-> IF rw[i] # "*" THEN rw[i]
                          ELSE IF i - 1 < first THEN "-" ELSE IF i - 1 > first /\ i - 1 < last THEN "N"
                          ELSE IF i - 1 > last THEN "-" ELSE rw[i]]
TrimMachine(sq, pad, s, e) == IF pad THEN [i \in 1..Len(sq) |-> IF i - 1 < s - 1 \/ i - 1 >= e THEN "N" ELSE sq[i]]
                              ELSE SubSeq(sq, s, e)

WalkInv == x.kind = "walk" =>
  /\ pc = "run" => Len(row) = r /\ q <= Len(x.seq) /\ r <= L
  /\ pc = "done" => row = Proj(x, L) /\ q = Len(x.seq)
SiteInv == x.kind = "site" => SiteMachine(x.col) = FlatCol(x.col)
FlankInv == x.kind = "flank" =>
  TrimMachine(FlankMachine(x.row, x.pad), x.pad, x.s, x.e) = WindowOf(FlankRule(x.row, x.pad), x.s, x.e, x.pad)
=============================================================================
