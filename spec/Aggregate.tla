------------------------------ MODULE Aggregate ------------------------------
(***************************************************************************)
(* --aggregate of `variants` / `sam variants` (AggregateWriteVariants) and  *)
(* `snps` (aggregateWriteOutput) as a machine: Take one per-sequence result *)
(* at a time in ARRIVAL order (any order: the workers race), count in a     *)
(* map, then IterateMap in an arbitrary order (Go randomises it), SortStable *)
(* by the key, Filter by the threshold, Emit.  Two things are checked:      *)
(*   C13  the emitted set and counts are those of the declarative AggOf,    *)
(*        whatever the arrival and iteration orders;                        *)
(*   C12  the emitted SEQUENCE is the same for every arrival and iteration  *)
(*        order - true iff the sort key is total on the emitted mutations.  *)
(* KeyFields = <<"pos","type","alt">> is the key of the original code: TLC   *)
(* finds two mutations that tie (ins:6:1 / ins:6:2) and two orders giving    *)
(* different outputs.  With "text" appended (commit 331efe6) it is total.    *)
(***************************************************************************)
EXTENDS Integers, Sequences, FiniteSets, TLC, SequencesExt
CONSTANTS Muts,        \* the mutations that can occur: records [pos, type, alt, text]
          NSeq,        \* number of sequences
          KeyFields,   \* the fields the sort compares, in order
          ThrNum, ThrDen
DefaultMuts == {[pos |-> 3, type |-> "nuc", alt |-> "T", text |-> "nuc:A3T"], [pos |-> 3, type |-> "nuc", alt |-> "C", text |-> "nuc:A3C"],
                [pos |-> 6, type |-> "ins", alt |-> "", text |-> "ins:6:1"], [pos |-> 6, type |-> "ins", alt |-> "", text |-> "ins:6:2"],
                [pos |-> 4, type |-> "del", alt |-> "", text |-> "del:4:1"]}
KeyIntended == <<"pos", "type", "alt", "text">>
KeyAsCoded  == <<"pos", "type", "alt">>
VARIABLES perseq,      \* [1..NSeq -> SUBSET Muts]: the per-sequence results (the input)
          arrived,     \* set of sequence numbers already taken by the writer
          count, n,    \* the map and the record counter
          order,       \* the slice built by iterating the map
          out, pc
vars == <<perseq, arrived, count, n, order, out, pc>>

Init == /\ perseq \in [1..NSeq -> SUBSET Muts]
        /\ arrived = {} /\ count = [m \in {} |-> 0] /\ n = 0 /\ order = <<>> /\ out = <<>> /\ pc = "take"
Take(s) ==      \* a per-sequence result arrives (any order)
  /\ pc = "take" /\ s \in (1..NSeq) \ arrived
  /\ arrived' = arrived \cup {s} /\ n' = n + 1
  /\ count' = [m \in (DOMAIN count) \cup perseq[s] |-> (IF m \in DOMAIN count THEN count[m] ELSE 0) + (IF m \in perseq[s] THEN 1 ELSE 0)]
  /\ UNCHANGED <<perseq, order, out, pc>>
IterateMap ==   \* `for k := range propMap`: any permutation of the keys
  /\ pc = "take" /\ arrived = 1..NSeq
  /\ \E p \in {q \in [1..Cardinality(DOMAIN count) -> DOMAIN count] : \A a, b \in DOMAIN q : a # b => q[a] # q[b]} : order' = p
  /\ pc' = "sort" /\ UNCHANGED <<perseq, arrived, count, n, out>>
KeyOf(m, f) == CASE f = "pos" -> m.pos [] f = "type" -> m.type [] f = "alt" -> m.alt [] f = "text" -> m.text
StrLess(x, y) == LET ord == <<"", "A", "C", "G", "T", "del", "ins", "nuc", "ins:6:1", "ins:6:2", "nuc:A3T", "nuc:A3C", "del:4:1">>
                     ix(s) == CHOOSE i \in 1..Len(ord) : ord[i] = s
                 IN ix(x) < ix(y)
RECURSIVE LessFrom(_, _, _)
LessFrom(a, b, k) == IF k > Len(KeyFields) THEN FALSE
                     ELSE LET f == KeyFields[k] IN
                          IF KeyOf(a, f) = KeyOf(b, f) THEN LessFrom(a, b, k + 1)
                          ELSE (IF f = "pos" THEN a.pos < b.pos ELSE StrLess(KeyOf(a, f), KeyOf(b, f)))
(* stable insertion sort, as sort.SliceStable below 20 elements *)
RECURSIVE Sink(_, _)
Sink(s, j) == IF j > 1 /\ LessFrom(s[j], s[j - 1], 1) THEN Sink([s EXCEPT ![j] = s[j - 1], ![j - 1] = s[j]], j - 1) ELSE s
RECURSIVE InsSort(_, _)
InsSort(s, k) == IF k > Len(s) THEN s ELSE InsSort(Sink(s, k), k + 1)
SortStable == pc = "sort" /\ order' = InsSort(order, 2) /\ pc' = "emit" /\ UNCHANGED <<perseq, arrived, count, n, out>>
FilterEmit == /\ pc = "emit"
              /\ out' = SelectSeq(order, LAMBDA m : count[m] * ThrDen >= ThrNum * n)
              /\ pc' = "done" /\ UNCHANGED <<perseq, arrived, count, n, order>>
Next == (\E s \in 1..NSeq : Take(s)) \/ IterateMap \/ SortStable \/ FilterEmit
Spec == Init /\ [][Next]_vars

(* ---- the definition ---------------------------------------------------------------- *)
CountOf(m) == Cardinality({s \in 1..NSeq : m \in perseq[s]})
AggOf == {m \in Muts : CountOf(m) > 0 /\ CountOf(m) * ThrDen >= ThrNum * NSeq}
Frequencies == pc = "done" =>                                                   \* C13
   /\ {out[i] : i \in 1..Len(out)} = AggOf /\ Len(out) = Cardinality(AggOf)
   /\ \A i \in 1..Len(out) : count[out[i]] = CountOf(out[i])
   /\ \A i \in 1..(Len(out) - 1) : out[i].pos <= out[i + 1].pos
(* C12: a canonical order exists - sorted by the key, ties impossible *)
Deterministic == pc = "done" => \A i \in 1..(Len(out) - 1) : LessFrom(out[i], out[i + 1], 1)
=============================================================================
