------------------------------- MODULE GenC03 -------------------------------
(* Spec -> code for C03 (and C13 on snps): every (reference symbol, query     *)
(* symbol) pair in both modes and all four case combinations; every width-3   *)
(* row over a 6-symbol sub-alphabet against chosen references; thresholds for *)
(* the aggregate run that coincide with occurring frequencies.                *)
EXTENDS Alphabet, GenBase, SequencesExt
SymSeq == <<"A","C","G","T","R","Y","S","W","K","M","B","D","H","V","N","-","?">>
Sub6 == {"A", "C", "R", "N", "-", "?"}
Rows3 == SetToSeq({<<a, b, c>> : a \in Sub6, b \in Sub6, c \in Sub6})
RefsQuick == {<<"A","R","-">>, <<"N","C","T">>, <<"?","G","Y">>}
Refs3 == IF Thorough THEN {<<a, b, c>> : a \in Sub6 \cup {"G","Y"}, b \in Sub6, c \in Sub6 \cup {"T"}} ELSE RefsQuick
Thr == {0, 200, 250, 333, 334, 500, 750, 1000}

VecA == {[id |-> "pair-" \o r \o "-" \o B2S(h) \o B2S(lr) \o B2S(lq), ref |-> <<r>>,
          qs |-> [i \in 1..17 |-> <<SymSeq[i]>>], hard |-> h, lowr |-> lr, lowq |-> lq, wrap |-> 0, thr |-> t]
         : r \in Sym, h \in BOOLEAN, lr \in BOOLEAN, lq \in BOOLEAN, t \in {-1}}
VecB == {[id |-> "row3-" \o ref[1] \o ref[2] \o ref[3] \o "-" \o B2S(h) \o "-" \o ToString(t), ref |-> ref,
          qs |-> Rows3, hard |-> h, lowr |-> FALSE, lowq |-> FALSE, wrap |-> w, thr |-> t]
         : ref \in Refs3, h \in BOOLEAN, w \in {0, 2}, t \in {-1, 500}}
(* few sequences, every threshold: frequencies k/n for n in 1..5 *)
Q5 == <<<<"C","A","G">>, <<"C","A","T">>, <<"A","A","T">>, <<"C","N","T">>, <<"T","-","T">>>>
VecC == {[id |-> "agg-" \o ToString(n) \o "-" \o ToString(t) \o "-" \o B2S(h), ref |-> <<"A","A","G">>,
          qs |-> SubSeq(Q5, 1, n), hard |-> h, lowr |-> FALSE, lowq |-> FALSE, wrap |-> 0, thr |-> t]
         : n \in 1..5, t \in Thr, h \in BOOLEAN}
VARIABLE v
Init == v \in VecA \cup VecB \cup VecC
Next == UNCHANGED v
EmitInv == EmitVec(v)
=============================================================================
