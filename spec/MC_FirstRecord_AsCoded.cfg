SPECIFICATION Spec
CONSTANTS
  MaxN = 4
  MaxCap = 5
  AsCoded = TRUE
INVARIANT EmptyOnlyIfEmpty
INVARIANT ReadErrOnlyIfBad
INVARIANT RefIsFirst
INVARIANT AllDelivered
INVARIANT NoGoroutineLeft
PROPERTY Termination
CHECK_DEADLOCK FALSE
