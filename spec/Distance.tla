------------------------------ MODULE Distance ------------------------------
(* Column classes and whole-sequence definitions behind snps (C03), the       *)
(* distance measures of closest (C07, C06) and --aggregate frequencies (C13). *)
(* Sequences are TLA+ sequences of one-character strings, either case.        *)
EXTENDS Alphabet, SequencesExt

Ix(n) == [i \in 1..n |-> i]

(* ---- C03: the SNP row of a query against the reference ------------------- *)
SnpCols(ref, q, hard) == SelectSeq(Ix(Len(ref)), LAMBDA i : Disjoint(Upper(ref[i]), Upper(q[i]), hard))
SnpRow(ref, q, hard) == LET c == SnpCols(ref, q, hard)
                        IN [k \in 1..Len(c) |-> <<Upper(ref[c[k]]), c[k], Upper(q[c[k]])>>]

(* ---- C07: distances ------------------------------------------------------- *)
Differ(a, b)    == Disjoint(Upper(a), Upper(b), FALSE)
SameKnown(a, b) == IsACGT(Upper(a)) /\ Upper(a) = Upper(b)
BothKnown(a, b) == IsACGT(Upper(a)) /\ IsACGT(Upper(b))
Purine(a)  == Upper(a) \in {"A", "G"}
Pyrimid(a) == Upper(a) \in {"C", "T"}
Count(n, P(_)) == Cardinality({i \in 1..n : P(i)})
SnpDist(q, t) == Count(Len(q), LAMBDA i : Differ(q[i], t[i]))
RawNum(q, t)  == SnpDist(q, t)
RawDen(q, t)  == SnpDist(q, t) + Count(Len(q), LAMBDA i : SameKnown(q[i], t[i]))
(* tn93 counts on the columns where both are A/C/G/T *)
TnL(q, t)  == Count(Len(q), LAMBDA i : BothKnown(q[i], t[i]))
TnP1(q, t) == Count(Len(q), LAMBDA i : BothKnown(q[i], t[i]) /\ Differ(q[i], t[i]) /\ Purine(q[i]) /\ Purine(t[i]))
TnP2(q, t) == Count(Len(q), LAMBDA i : BothKnown(q[i], t[i]) /\ Differ(q[i], t[i]) /\ Pyrimid(q[i]) /\ Pyrimid(t[i]))
TnD(q, t)  == Count(Len(q), LAMBDA i : BothKnown(q[i], t[i]) /\ Differ(q[i], t[i]))
BaseCount(t, b) == Count(Len(t), LAMBDA i : Upper(t[i]) = b)
TN93Stats(q, t) == [L |-> TnL(q, t), P1 |-> TnP1(q, t), P2 |-> TnP2(q, t), Q |-> TnD(q, t) - TnP1(q, t) - TnP2(q, t),
                    A |-> BaseCount(t, "A"), C |-> BaseCount(t, "C"), G |-> BaseCount(t, "G"), T |-> BaseCount(t, "T")]
Completeness(t) == LET RECURSIVE S(_) S(i) == IF i = 0 THEN 0 ELSE Score(Upper(t[i])) + S(i - 1) IN S(Len(t))

(* a unit alignment repeated k times: every count is k times the unit's (MCAlphabet: ThmRepeat), so vectors of  *)
(* 100,000 columns are judged from their unit                                                              *)
RepSeq(u, k) == [i \in 1..(k * Len(u)) |-> u[((i - 1) % Len(u)) + 1]]
ScaleStats(st, k) == [L |-> k * st.L, P1 |-> k * st.P1, P2 |-> k * st.P2, Q |-> k * st.Q, A |-> k * st.A, C |-> k * st.C, G |-> k * st.G, T |-> k * st.T]
ThmRepeat == \A q, t \in [1..2 -> {"A", "C", "G", "T", "R", "N", "-"}], k \in 1..3 :
               /\ TN93Stats(RepSeq(q, k), RepSeq(t, k)) = ScaleStats(TN93Stats(q, t), k)
               /\ SnpDist(RepSeq(q, k), RepSeq(t, k)) = k * SnpDist(q, t)
               /\ RawDen(RepSeq(q, k), RepSeq(t, k)) = k * RawDen(q, t)

(* runs of identical resolved columns inserted into a unit alignment: the SNP row is the unit's with the      *)
(* positions shifted (MCAlphabet: ThmPad), so genomes of more than 100,000 columns are judged from their unit  *)
InsAt(s, g, n) == SubSeq(s, 1, g) \o [i \in 1..n |-> "A"] \o SubSeq(s, g + 1, Len(s))
RECURSIVE PadSeq(_, _, _)
PadSeq(s, pads, k) == IF k = 0 THEN s ELSE PadSeq(InsAt(s, pads[k][1], pads[k][2]), pads, k - 1)   \* last pad first
PadShift(pads, p) == LET RECURSIVE S(_) S(i) == IF i = 0 THEN 0 ELSE (IF pads[i][1] < p THEN pads[i][2] ELSE 0) + S(i - 1) IN p + S(Len(pads))
ShiftRow(row, pads) == [k \in 1..Len(row) |-> <<row[k][1], PadShift(pads, row[k][2]), row[k][3]>>]
ThmPad == \A ref, q \in [1..3 -> {"A", "C", "N", "-"}], hard \in BOOLEAN :
            \A pads \in {<<>>} \cup {<<<<g, n>>>> : g \in 0..3, n \in 1..2} \cup {<<<<g, 1>>, <<h, 2>>>> : g, h \in 0..3} :
               (Len(pads) = 2 => pads[1][1] <= pads[2][1]) =>
                 SnpRow(PadSeq(ref, pads, Len(pads)), PadSeq(q, pads, Len(pads)), hard) = ShiftRow(SnpRow(ref, q, hard), pads)

(* the machine the code runs on the bit patterns, per column (MC: agrees with the sets) *)
BitDiffer(a, b)    == (Enc(a, FALSE) & Enc(b, FALSE)) < 16
BitSameKnown(a, b) == (Enc(a, FALSE) & 8) = 8 /\ Enc(a, FALSE) = Enc(b, FALSE)
BitTnDiff(a, b)    == BitDiffer(a, b) /\ (Enc(a, FALSE) & 8) = 8 /\ (Enc(b, FALSE) & 8) = 8
BitTnP1(a, b)      == BitTnDiff(a, b) /\ (Enc(a, FALSE) | Enc(b, FALSE)) = 200
BitTnP2(a, b)      == BitTnDiff(a, b) /\ (Enc(a, FALSE) | Enc(b, FALSE)) # 200 /\ (Enc(a, FALSE) | Enc(b, FALSE)) = 56

(* ---- 9-decimal rendering of n/d by long division (no reals in TLC) -------- *)
(* Dec9(n, d) = round(n / d * 10^9) as an integer, for 0 <= n <= d, 0 < d < 1024 (no ties exist there) *)
RECURSIVE Dec9Step(_, _, _, _)
Dec9Step(v, r, d, k) == IF k = 0 THEN <<v, r>> ELSE Dec9Step(v * 10 + ((r * 10) \div d), (r * 10) % d, d, k - 1)
Floor9(n, d) == Dec9Step(n \div d, n % d, d, 9)[1]      \* floor(n / d * 10^9): n/d >= T/10^9 iff Floor9(n, d) >= T
Dec9(n, d) == LET vr == Dec9Step(n \div d, n % d, d, 9) IN vr[1] + (IF 2 * vr[2] >= d THEN 1 ELSE 0)
=============================================================================
