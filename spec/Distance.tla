------------------------------ MODULE Distance ------------------------------
(* Column classes and whole-sequence definitions behind snps (C03), the       *)
(* distance measures of closest (C07, C06) and --aggregate frequencies (C13). *)
(* Sequences are TLA+ sequences of one-character strings, either case.        *)
EXTENDS Alphabet, SequencesExt

Ix(n) == [i \in 1..n |-> i]

(* ---- C03: the SNP row of a query against the reference ------------------- *)
SnpCols(ref, q, hard) == SelectSeq(Ix(Len(ref)), LAMBDA i : Disjoint(Upper(ref[i]), Upper(q[i]), hard))
SnpRow(ref, q, hard) == LET c == SnpCols(ref, q, hard)
                        IN [k \in 1..Len(c) |-> <<Upper(ref[c[k]]), c[k], Upper(q[c[k]])>>]

(* ---- C07: distances ------------------------------------------------------- *)
Differ(a, b)    == Disjoint(Upper(a), Upper(b), FALSE)
SameKnown(a, b) == IsACGT(Upper(a)) /\ Upper(a) = Upper(b)
BothKnown(a, b) == IsACGT(Upper(a)) /\ IsACGT(Upper(b))
Purine(a)  == Upper(a) \in {"A", "G"}
Pyrimid(a) == Upper(a) \in {"C", "T"}
Count(n, P(_)) == Cardinality({i \in 1..n : P(i)})
SnpDist(q, t) == Count(Len(q), LAMBDA i : Differ(q[i], t[i]))
RawNum(q, t)  == SnpDist(q, t)
RawDen(q, t)  == SnpDist(q, t) + Count(Len(q), LAMBDA i : SameKnown(q[i], t[i]))
(* tn93 counts on the columns where both are A/C/G/T *)
TnL(q, t)  == Count(Len(q), LAMBDA i : BothKnown(q[i], t[i]))
TnP1(q, t) == Count(Len(q), LAMBDA i : BothKnown(q[i], t[i]) /\ Differ(q[i], t[i]) /\ Purine(q[i]) /\ Purine(t[i]))
TnP2(q, t) == Count(Len(q), LAMBDA i : BothKnown(q[i], t[i]) /\ Differ(q[i], t[i]) /\ Pyrimid(q[i]) /\ Pyrimid(t[i]))
TnD(q, t)  == Count(Len(q), LAMBDA i : BothKnown(q[i], t[i]) /\ Differ(q[i], t[i]))
BaseCount(t, b) == Count(Len(t), LAMBDA i : Upper(t[i]) = b)
TN93Stats(q, t) == [L |-> TnL(q, t), P1 |-> TnP1(q, t), P2 |-> TnP2(q, t), Q |-> TnD(q, t) - TnP1(q, t) - TnP2(q, t),
                    A |-> BaseCount(t, "A"), C |-> BaseCount(t, "C"), G |-> BaseCount(t, "G"), T |-> BaseCount(t, "T")]
Completeness(t) == LET RECURSIVE S(_) S(i) == IF i = 0 THEN 0 ELSE Score(Upper(t[i])) + S(i - 1) IN S(Len(t))

(* the machine the code runs on the bit patterns, per column (MC: agrees with the sets) *)
BitDiffer(a, b)    == (Enc(a, FALSE) & Enc(b, FALSE)) < 16
BitSameKnown(a, b) == (Enc(a, FALSE) & 8) = 8 /\ Enc(a, FALSE) = Enc(b, FALSE)
BitTnDiff(a, b)    == BitDiffer(a, b) /\ (Enc(a, FALSE) & 8) = 8 /\ (Enc(b, FALSE) & 8) = 8
BitTnP1(a, b)      == BitTnDiff(a, b) /\ (Enc(a, FALSE) | Enc(b, FALSE)) = 200
BitTnP2(a, b)      == BitTnDiff(a, b) /\ (Enc(a, FALSE) | Enc(b, FALSE)) # 200 /\ (Enc(a, FALSE) | Enc(b, FALSE)) = 56

(* ---- 9-decimal rendering of n/d by long division (no reals in TLC) -------- *)
(* Dec9(n, d) = round(n / d * 10^9) as an integer, for 0 <= n <= d, 0 < d < 1024 (no ties exist there) *)
RECURSIVE Dec9Step(_, _, _, _)
Dec9Step(v, r, d, k) == IF k = 0 THEN <<v, r>> ELSE Dec9Step(v * 10 + ((r * 10) \div d), (r * 10) % d, d, k - 1)
Dec9(n, d) == LET vr == Dec9Step(n \div d, n % d, d, 9) IN vr[1] + (IF 2 * vr[2] >= d THEN 1 ELSE 0)
=============================================================================
