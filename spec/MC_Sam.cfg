SPECIFICATION Spec
CONSTANTS
  MaxOps = 3
  L = 6
  FlankLen = 5
INVARIANT WalkInv
INVARIANT SiteInv
INVARIANT FlankInv
CHECK_DEADLOCK FALSE
