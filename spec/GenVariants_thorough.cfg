INIT Init
NEXT Next
CONSTANT MaxCls = 8
INVARIANT EmitInv
CHECK_DEADLOCK FALSE
