------------------------------ MODULE GenBase ------------------------------
(* Skeleton of the vector emitters: a Gen module defines the set (or the     *)
(* behaviours) to enumerate; every enumerated element is written as one JSON *)
(* line to the file named by the environment variable VERIF_VEC.             *)
EXTENDS Integers, Sequences, FiniteSets, TLC, Json, CSV, IOUtils
VecFile == IOEnv.VERIF_VEC
EmitVec(v) == CSVWrite("%1$s", <<ToJson(v)>>, VecFile)
Tier == IF "VERIF_TIER" \in DOMAIN IOEnv THEN IOEnv.VERIF_TIER ELSE "quick"
Thorough == Tier = "thorough"
B2S(b) == IF b THEN "1" ELSE "0"
=============================================================================
