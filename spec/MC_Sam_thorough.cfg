SPECIFICATION Spec
CONSTANTS
  MaxOps = 4
  L = 7
  FlankLen = 6
INVARIANT WalkInv
INVARIANT SiteInv
INVARIANT FlankInv
CHECK_DEADLOCK FALSE
