------------------------------- MODULE Fanout -------------------------------
(* The write-after-pipeline commands (closest, closest -n, updown topranking): *)
(* a reader streams targets into a splitter, which hands every target to every *)
(* per-query goroutine in query order; when the targets are exhausted each      *)
(* query goroutine reports its result; Main waits for "read done", "split       *)
(* done", collects one result per query into an array indexed by the query's    *)
(* position, and only then writes, sequentially: W = 1 + Q write calls (header  *)
(* + one row per query).  One fault per behaviour: a bad target (reader error), *)
(* a width mismatch detected by the splitter on the first target, or the k-th   *)
(* write failing.                                                               *)
(*   IgnoreRowErr = TRUE  is closest.go / closest_n.go as coded: the result of  *)
(*                        every row write is dropped (only the header's is      *)
(*                        looked at);                                           *)
(*   IgnoreHdrErr = TRUE  is topranking --table as coded: the header write's    *)
(*                        result is dropped.                                    *)
(* With both FALSE (the intended protocol) DoneOK holds; TLC must find the      *)
(* counterexample for either TRUE (model fidelity).                             *)
EXTENDS Integers, Sequences, FiniteSets, TLC
CONSTANTS Q, NT, Cap, Faults, IgnoreRowErr, IgnoreHdrErr, WPR     \* WPR: Write calls per query row (1 for the list forms, more for the long-form tables)
VARIABLES rd, nxt, ch, closed, sp, q, got, main, nw, rows, fault, faulted
vars == <<rd, nxt, ch, closed, sp, q, got, main, nw, rows, fault, faulted>>
Queries == 1..Q
FaultSet == {[kind |-> "none", at |-> 0]}
            \cup (IF "rd" \in Faults THEN {[kind |-> "rd", at |-> k] : k \in 0..(NT - 1)} ELSE {})
            \cup (IF "width" \in Faults THEN {[kind |-> "width", at |-> 0]} ELSE {})
            \cup (IF "wr" \in Faults THEN {[kind |-> "wr", at |-> k] : k \in 1..(Q * WPR + 1)} ELSE {})
Init == /\ rd = "run" /\ nxt = 0 /\ ch = <<>> /\ closed = FALSE
        /\ sp = [st |-> "recv", tgt |-> -1, j |-> 1]      \* splitter: receiving | distributing target tgt to query j | blockedErr | closing | done
        /\ q = [i \in Queries |-> [seen |-> 0, st |-> "run"]]  \* per-query goroutine: run | reporting | done
        /\ got = {} /\ main = "waitRead" /\ nw = 0 /\ rows = <<>>
        /\ fault \in FaultSet /\ faulted = FALSE
Alive == main \notin {"retNil", "retErr"}
Selecting == main \in {"waitRead", "waitSplit"}
Fires(k, a) == fault.kind = k /\ fault.at = a /\ ~faulted

ReaderSend == /\ rd = "run" /\ nxt < NT /\ ~Fires("rd", nxt) /\ Len(ch) < Cap
              /\ ch' = Append(ch, nxt) /\ nxt' = nxt + 1
              /\ UNCHANGED <<rd, closed, sp, q, got, main, nw, rows, fault, faulted>>
ReaderErr  == /\ rd = "run" /\ nxt < NT /\ Fires("rd", nxt)
              /\ rd' = "blockedErr" /\ faulted' = TRUE
              /\ UNCHANGED <<nxt, ch, closed, sp, q, got, main, nw, rows, fault>>
ReaderDone == /\ rd = "run" /\ nxt = NT /\ main = "waitRead"
              /\ rd' = "done" /\ closed' = TRUE /\ main' = "waitSplit"
              /\ UNCHANGED <<nxt, ch, sp, q, got, nw, rows, fault, faulted>>
SplitRecv  == /\ sp.st = "recv" /\ ch # <<>>
              /\ IF Head(ch) = 0 /\ Fires("width", 0)
                 THEN sp' = [sp EXCEPT !.st = "blockedErr"] /\ faulted' = TRUE
                 ELSE sp' = [st |-> "dist", tgt |-> Head(ch), j |-> 1] /\ faulted' = faulted
              /\ ch' = Tail(ch)
              /\ UNCHANGED <<rd, nxt, closed, q, got, main, nw, rows, fault>>
SplitSend  == /\ sp.st = "dist" /\ q[sp.j].st = "run"       \* unbuffered: the query goroutine is always ready to take it
              /\ q' = [q EXCEPT ![sp.j].seen = @ + 1]
              /\ sp' = IF sp.j = Q THEN [sp EXCEPT !.st = "recv", !.tgt = -1, !.j = 1] ELSE [sp EXCEPT !.j = @ + 1]
              /\ UNCHANGED <<rd, nxt, ch, closed, got, main, nw, rows, fault, faulted>>
SplitClose == /\ sp.st = "recv" /\ ch = <<>> /\ closed      \* close every query channel: the goroutines start reporting
              /\ sp' = [sp EXCEPT !.st = "closing"]
              /\ q' = [i \in Queries |-> [q[i] EXCEPT !.st = "reporting"]]
              /\ UNCHANGED <<rd, nxt, ch, closed, got, main, nw, rows, fault, faulted>>
SplitDone  == /\ sp.st = "closing" /\ main = "waitSplit"    \* cSplitDone <- true
              /\ sp' = [sp EXCEPT !.st = "done"] /\ main' = "collect"
              /\ UNCHANGED <<rd, nxt, ch, closed, q, got, nw, rows, fault, faulted>>
Report(i)  == /\ q[i].st = "reporting" /\ main = "collect"  \* cResults <- result  ||  Main: QResultsArray[result.qidx] = result
              /\ q' = [q EXCEPT ![i].st = "done"] /\ got' = got \cup {i}
              /\ main' = IF got' = Queries THEN "write" ELSE "collect"
              /\ UNCHANGED <<rd, nxt, ch, closed, sp, nw, rows, fault, faulted>>
NoQueries  == /\ Q = 0 /\ main = "collect" /\ main' = "write"
              /\ UNCHANGED <<rd, nxt, ch, closed, sp, q, got, nw, rows, fault, faulted>>
(* sequential writer in Main: call 1 is the header, calls 2 + (r-1)*WPR .. 1 + r*WPR the row of query r *)
Write      == /\ main = "write" /\ nw < Q * WPR + 1
              /\ LET k == nw + 1
                     fails == fault.kind = "wr" /\ fault.at = k
                     ignored == IF k = 1 THEN IgnoreHdrErr ELSE IgnoreRowErr
                     rowdone == k > 1 /\ (k - 1) % WPR = 0            \* the last call of a row
                 IN /\ nw' = k
                    /\ faulted' = (faulted \/ fails)
                    /\ rows' = IF rowdone /\ ~faulted' THEN Append(rows, (k - 1) \div WPR) ELSE rows
                    /\ main' = IF fails /\ ~ignored THEN "retErr" ELSE IF k = Q * WPR + 1 THEN "retNil" ELSE "write"
              /\ UNCHANGED <<rd, nxt, ch, closed, sp, q, got, fault>>
MainRecvErr == /\ Alive /\ Selecting /\ (rd = "blockedErr" \/ sp.st = "blockedErr")
              /\ main' = "retErr"
              /\ UNCHANGED <<rd, nxt, ch, closed, sp, q, got, nw, rows, fault, faulted>>
Next == Alive /\ (ReaderSend \/ ReaderErr \/ ReaderDone \/ SplitRecv \/ SplitSend \/ SplitClose \/ SplitDone
                  \/ (\E i \in Queries : Report(i)) \/ NoQueries \/ Write \/ MainRecvErr)
Spec == Init /\ [][Next]_vars /\ WF_vars(Next)

DoneOK == main = "retNil" => ~faulted /\ rows = [k \in 1..Q |-> k]                 \* C19 / C12: success = every row, in query order
EveryTargetToEveryQuery == main \in {"write", "retNil"} /\ ~faulted => \A i \in Queries : q[i].seen = NT   \* C06/C08: nothing skipped
ErrSafety == main = "retErr" => faulted
Termination == <>(main \in {"retNil", "retErr"})
ErrReported == faulted ~> (main \in {"retErr"})
=============================================================================
