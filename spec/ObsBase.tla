------------------------------ MODULE ObsBase ------------------------------
(* Common skeleton of every observation validator: read the ndjson file the  *)
(* harness wrote, consume one observation per step, record failures without  *)
(* stopping.  A module instantiating it defines Failed(o) (the set of clause *)
(* names the observation violates), Sig(o, clause) and Expect(o, clause).    *)
EXTENDS Integers, Sequences, FiniteSets, TLC, Json, CSV, IOUtils
ObsFile  == IOEnv.VERIF_OBS
FailFile == IOEnv.VERIF_FAIL
StatFile == IOEnv.VERIF_STAT
Trace == ndJsonDeserialize(ObsFile)
Emit(file, v) == CSVWrite("%1$s", <<ToJson(v)>>, file)
Has(o, f) == f \in DOMAIN o
(* CLI wiring: for a sample of vectors the harness also ran the gofasta binary with the equivalent flags; *)
(* r carries cli_same (its output = the entry point's, byte for byte), cli_exit and cli_timeout.          *)
CliBadAt(r, p) == Has(r, p \o "cli_same") /\ (~r[p \o "cli_same"] \/ r[p \o "cli_exit"] # 0 \/ r[p \o "cli_timeout"])
CliBad(r) == CliBadAt(r, "")
=============================================================================
