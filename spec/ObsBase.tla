------------------------------ MODULE ObsBase ------------------------------
(* Common skeleton of every observation validator: read the ndjson file the  *)
(* harness wrote, consume one observation per step, record failures without  *)
(* stopping.  A module instantiating it defines Failed(o) (the set of clause *)
(* names the observation violates), Sig(o, clause) and Expect(o, clause).    *)
EXTENDS Integers, Sequences, FiniteSets, TLC, Json, CSV, IOUtils
ObsFile  == IOEnv.VERIF_OBS
FailFile == IOEnv.VERIF_FAIL
StatFile == IOEnv.VERIF_STAT
Trace == ndJsonDeserialize(ObsFile)
Emit(file, v) == CSVWrite("%1$s", <<ToJson(v)>>, file)
Has(o, f) == f \in DOMAIN o
=============================================================================
