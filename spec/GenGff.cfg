INIT Init
NEXT Next
INVARIANT EmitInv
CHECK_DEADLOCK FALSE
