------------------------------ MODULE MCUpDown ------------------------------
(* Exhaustive checks of the UpDown theory against the machines of the code:     *)
(*   scan   getLines' tract scanner, stepped column by column, = Tracts /        *)
(*          ambcount, and Reconstruct(ListRow(s)) = s up to ambiguous identity,  *)
(*          for every row over {same, snp, ambiguous} of length <= ScanLen       *)
(*   bal    balance() satisfies EvenFill and never exceeds the total, for every  *)
(*          requested size and supply in (0..MaxSz)^4, --no-fill on/off, and for *)
(*          every --size-total                                                   *)
(*   push   refactorPushCatchment keeps exactly the k smallest distances          *)
EXTENDS UpDown
CONSTANTS ScanLen, MaxSz, PushLen
VARIABLES x, i, st, pc
vars == <<x, i, st, pc>>
Sym3 == {"A", "C", "N"}
RefOf(n) == [k \in 1..n |-> "A"]
Vec4 == [1..4 -> 0..MaxSz]
Init == /\ \/ \E n \in 1..ScanLen : \E s \in [1..n -> Sym3] : x = [kind |-> "scan", s |-> s]
           \/ \E id \in Vec4, sup \in Vec4, nf \in BOOLEAN : x = [kind |-> "bal", ideal |-> id, supply |-> sup, nofill |-> nf, total |-> Sum4(id)]
           \/ \E S \in 1..(4 * MaxSz), sup \in Vec4, nf \in BOOLEAN : x = [kind |-> "bal", ideal |-> IdealOfTotal(S), supply |-> sup, nofill |-> nf, total |-> S]
           \/ \E n \in 1..PushLen : \E ds \in [1..n -> 1..4], k \in 1..3 : x = [kind |-> "push", ds |-> ds, k |-> k]
        /\ i = 1 /\ pc = "run"
        /\ st = IF x.kind = "scan" THEN ScanInit ELSE IF x.kind = "push" THEN [m |-> [d \in {} |-> <<>>], maxd |-> 0, nd |-> 0] ELSE [cont |-> FALSE]
(* getLines *)
ColBase == pc = "run" /\ x.kind = "scan" /\ i <= Len(x.s) /\ IsBase(x.s[i]) /\ st' = ScanCol(x.s, i, st) /\ i' = i + 1 /\ UNCHANGED <<x, pc>>
ColAmb  == pc = "run" /\ x.kind = "scan" /\ i <= Len(x.s) /\ ~IsBase(x.s[i]) /\ st' = ScanCol(x.s, i, st) /\ i' = i + 1 /\ UNCHANGED <<x, pc>>
CloseTract == pc = "run" /\ x.kind = "scan" /\ i = Len(x.s) + 1 /\ st' = ScanEnd(st) /\ pc' = "done" /\ UNCHANGED <<x, i>>
(* findUpDownCatchmentPushDistance + refactorPushCatchment for one bin: m maps a distance to the file indices at that distance *)
MaxKey(m) == IF DOMAIN m = {} THEN 0 ELSE CHOOSE d \in DOMAIN m : \A e \in DOMAIN m : e <= d
Put(m, d, v) == [e \in (DOMAIN m) \cup {d} |-> IF e = d THEN v ELSE m[e]]
Del(m, d) == [e \in (DOMAIN m) \ {d} |-> m[e]]
PushConsidered == x.ds[i] <= st.maxd \/ st.nd < x.k
PushSkip   == pc = "run" /\ x.kind = "push" /\ i <= Len(x.ds) /\ ~PushConsidered /\ i' = i + 1 /\ UNCHANGED <<x, st, pc>>
PushAppend == pc = "run" /\ x.kind = "push" /\ i <= Len(x.ds) /\ PushConsidered /\ x.ds[i] \in DOMAIN st.m
              /\ st' = [st EXCEPT !.m = Put(st.m, x.ds[i], Append(st.m[x.ds[i]], i))] /\ i' = i + 1 /\ UNCHANGED <<x, pc>>
PushEvict  == /\ pc = "run" /\ x.kind = "push" /\ i <= Len(x.ds) /\ PushConsidered /\ x.ds[i] \notin DOMAIN st.m /\ Cardinality(DOMAIN st.m) = x.k
              /\ LET m2 == Put(Del(st.m, MaxKey(st.m)), x.ds[i], <<i>>) IN st' = [m |-> m2, maxd |-> MaxKey(m2), nd |-> Cardinality(DOMAIN m2)]
              /\ i' = i + 1 /\ UNCHANGED <<x, pc>>
PushAdd    == /\ pc = "run" /\ x.kind = "push" /\ i <= Len(x.ds) /\ PushConsidered /\ x.ds[i] \notin DOMAIN st.m /\ Cardinality(DOMAIN st.m) # x.k
              /\ LET m2 == Put(st.m, x.ds[i], <<i>>) IN st' = [m |-> m2, maxd |-> MaxKey(m2), nd |-> Cardinality(DOMAIN m2)]
              /\ i' = i + 1 /\ UNCHANGED <<x, pc>>
PushDone   == pc = "run" /\ x.kind = "push" /\ i = Len(x.ds) + 1 /\ pc' = "done" /\ UNCHANGED <<x, i, st>>
Next == ColBase \/ ColAmb \/ CloseTract \/ PushSkip \/ PushAppend \/ PushEvict \/ PushAdd \/ PushDone
Spec == Init /\ [][Next]_vars

ScanInv == (x.kind = "scan" /\ pc = "done") =>
   LET row == ListRow(RefOf(Len(x.s)), x.s) IN
   /\ st.ambs = row.ambs /\ st.n = row.ambcount
   /\ Reconstruct(RefOf(Len(x.s)), row) = Masked(x.s)
   /\ row.snpcount = Len(row.snps)
BalInv == x.kind = "bal" =>
   LET size == Balance(x.total, x.ideal, x.supply, x.nofill) IN
   /\ EvenFill(x.ideal, x.supply, x.total, x.nofill, size)
   /\ Sum4(size) <= x.total
PushInv == (x.kind = "push" /\ pc = "done") =>
   LET D == {x.ds[j] : j \in 1..Len(x.ds)}  K == KSmallest(D, x.k) IN
   /\ DOMAIN st.m = K
   /\ \A d \in K : st.m[d] = SelectSeq([j \in 1..Len(x.ds) |-> j], LAMBDA j : x.ds[j] = d)
=============================================================================
