INIT Init
NEXT Next
CONSTANT MaxT = 3
INVARIANT EmitInv
CHECK_DEADLOCK FALSE
