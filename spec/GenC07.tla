------------------------------- MODULE GenC07 -------------------------------
(* Spec -> code for C07: every (query symbol, target symbol) pair at width 1,  *)
(* embedded in a resolved context so that raw and tn93 are defined; every      *)
(* width-2 combination over a 7-symbol sub-alphabet; both directions (symmetry)*)
(* and identical unambiguous sequences.                                        *)
EXTENDS Alphabet, GenBase, SequencesExt
SymSeq == <<"A","C","G","T","R","Y","S","W","K","M","B","D","H","V","N","-","?">>
Sub7 == <<"A", "C", "G", "T", "R", "N", "-">>
Ctx == <<"A","C","G","T","A","C","G","T","A","G","C","T">>
Pairs2 == [k \in 1..49 |-> <<Sub7[((k - 1) \div 7) + 1], Sub7[((k - 1) % 7) + 1]>>]
Measures == {"raw", "snp", "tn93"}
(* table mode: one query against all 17 (or 49) targets, all distances in one run *)
VecTable1 == {[id |-> "t1-" \o m \o "-" \o a, queries |-> <<Ctx \o <<a>>>>, targets |-> [k \in 1..17 |-> Ctx \o <<SymSeq[k]>>],
               measure |-> m, n |-> 17, d |-> -1, table |-> TRUE, threads |-> 1] : m \in Measures, a \in Sym}
VecTable2 == {[id |-> "t2-" \o m \o "-" \o ToString(k), queries |-> <<Ctx \o Pairs2[k]>>, targets |-> [j \in 1..49 |-> Ctx \o Pairs2[j]],
               measure |-> m, n |-> 49, d |-> -1, table |-> TRUE, threads |-> 1] : m \in Measures, k \in 1..49}
(* plain closest, one target: the distance and SNP columns of the default output *)
VecPlain == {[id |-> "p1-" \o m \o "-" \o a \o b, queries |-> <<Ctx \o <<a>>>>, targets |-> <<Ctx \o <<b>>>>,
              measure |-> m, n |-> 0, d |-> -1, table |-> FALSE, threads |-> 1] : m \in Measures, a \in Sym, b \in Sym}
(* no context: width-1 and width-2 alone (undefined raw/tn93 included) *)
VecBare == {[id |-> "b1-" \o m \o "-" \o a, queries |-> <<<<a>>>>, targets |-> [k \in 1..17 |-> <<SymSeq[k]>>],
             measure |-> m, n |-> 17, d |-> -1, table |-> TRUE, threads |-> 1] : m \in {"raw", "snp"}, a \in Sym}
VARIABLE v
Init == v \in VecTable1 \cup VecTable2 \cup VecPlain \cup VecBare
Next == UNCHANGED v
EmitInv == EmitVec(v)
=============================================================================
