------------------------------- MODULE UpDown -------------------------------
(***************************************************************************)
(* updown list (C10) and updown topranking (C08, C09), from the property    *)
(* statements: the summary of a sequence relative to the reference, the bin *)
(* and distance of a target relative to a query, the order inside a bin,    *)
(* what "evenly" means for --size options, and the k nearest distances of   *)
(* --dist-push.  Plus the machines of the code that MCUpDown checks against *)
(* them: the ambiguity-tract scanner of getLines, and balance().            *)
(***************************************************************************)
EXTENDS Alphabet, SequencesExt

Ix(n) == [i \in 1..n |-> i]
IsBase(s) == Upper(s) \in Base

(* ---- C10: the lossless summary ------------------------------------------------ *)
SnpCols(ref, s) == SelectSeq(Ix(Len(s)), LAMBDA i : IsBase(s[i]) /\ Disjoint(Upper(ref[i]), Upper(s[i]), FALSE))
SnpList(ref, s) == LET c == SnpCols(ref, s) IN [k \in 1..Len(c) |-> <<Upper(ref[c[k]]), c[k], Upper(s[c[k]])>>]
AmbCols(s) == {i \in 1..Len(s) : ~IsBase(s[i])}
Tracts(s) ==        \* maximal runs of non-A/C/G/T columns, as a sequence of <<first, last>> in ascending order
  LET A == AmbCols(s)
      starts == SelectSeq(Ix(Len(s)), LAMBDA i : i \in A /\ (i = 1 \/ (i - 1) \notin A))
      endOf(a) == CHOOSE b \in a..Len(s) : (\A x \in a..b : x \in A) /\ (b = Len(s) \/ (b + 1) \notin A)
  IN [k \in 1..Len(starts) |-> <<starts[k], endOf(starts[k])>>]
ListRow(ref, s) == [snps |-> SnpList(ref, s), ambs |-> Tracts(s), snpcount |-> Len(SnpCols(ref, s)), ambcount |-> Cardinality(AmbCols(s))]
(* reconstruction up to the identity of the ambiguous symbols: "?" stands for "some non-A/C/G/T symbol" *)
Reconstruct(ref, row) ==
  [i \in 1..Len(ref) |->
     IF \E k \in 1..Len(row.ambs) : row.ambs[k][1] <= i /\ i <= row.ambs[k][2] THEN "?"
     ELSE IF \E k \in 1..Len(row.snps) : row.snps[k][2] = i THEN (LET k == CHOOSE k \in 1..Len(row.snps) : row.snps[k][2] = i IN row.snps[k][3])
     ELSE Upper(ref[i])]
Masked(s) == [i \in 1..Len(s) |-> IF IsBase(s[i]) THEN Upper(s[i]) ELSE "?"]

(* the scanner of getLines, one step per column: cont, amb_start, amb_stop (0-based in the code; 1-based here) *)
ScanCol(s, i, st) ==
  IF IsBase(s[i])
  THEN IF st.cont THEN [st EXCEPT !.ambs = Append(@, <<st.a0, st.a1>>), !.cont = FALSE] ELSE st
  ELSE IF st.cont THEN [st EXCEPT !.a1 = i, !.n = @ + 1] ELSE [st EXCEPT !.a0 = i, !.a1 = i, !.cont = TRUE, !.n = @ + 1]
ScanEnd(st) == IF st.cont THEN [st EXCEPT !.ambs = Append(@, <<st.a0, st.a1>>), !.cont = FALSE] ELSE st
ScanInit == [cont |-> FALSE, a0 |-> 0, a1 |-> 0, ambs |-> <<>>, n |-> 0]

(* ---- C08: bin and distance of target t relative to query q (reference A/C/G/T) ------------- *)
HasSnp(ref, s, i) == IsBase(s[i]) /\ Upper(s[i]) # Upper(ref[i])
QOnly(ref, q, t) == {i \in 1..Len(ref) : HasSnp(ref, q, i) /\ IsBase(t[i]) /\ Upper(t[i]) # Upper(q[i])}
TOnly(ref, q, t) == {i \in 1..Len(ref) : HasSnp(ref, t, i) /\ IsBase(q[i]) /\ Upper(q[i]) # Upper(t[i])}
BinOf(ref, q, t) == LET a == QOnly(ref, q, t) # {}  b == TOnly(ref, q, t) # {} IN
                    IF ~a /\ ~b THEN "same" ELSE IF a /\ ~b THEN "up" ELSE IF ~a /\ b THEN "down" ELSE "side"
DistOf(ref, q, t) == Cardinality({i \in 1..Len(ref) : IsBase(q[i]) /\ IsBase(t[i]) /\ Upper(q[i]) # Upper(t[i])})
AmbCount(s) == Cardinality(AmbCols(s))
(* consequential ambiguous sites of the pair: a SNP of one at a site where the other is ambiguous *)
PairAmb(ref, q, t) == Cardinality({i \in 1..Len(ref) : HasSnp(ref, q, i) /\ ~IsBase(t[i])}) + Cardinality({i \in 1..Len(ref) : HasSnp(ref, t, i) /\ ~IsBase(q[i])})
PairAll(ref, q, t) ==    \* the four counts the proportion is taken over: Q-only, shared, T-only SNPs and the consequential ambiguous sites
  Cardinality({i \in 1..Len(ref) : HasSnp(ref, q, i) /\ IsBase(t[i])})
  + Cardinality({i \in 1..Len(ref) : HasSnp(ref, t, i) /\ IsBase(q[i]) /\ ~(HasSnp(ref, q, i) /\ Upper(q[i]) = Upper(t[i]))})
  + PairAmb(ref, q, t)
(* passes --threshold-pair num/den: not (amb / all > num / den); 0/0 passes *)
PassesPair(ref, q, t, num, den) == PairAll(ref, q, t) = 0 \/ PairAmb(ref, q, t) * den <= num * PairAll(ref, q, t)
Bins == <<"same", "up", "down", "side">>

(* the order inside a bin: distance, then fewer ambiguities, then file order *)
BinBefore(x, y) == \/ x.d < y.d \/ (x.d = y.d /\ x.a < y.a) \/ (x.d = y.d /\ x.a = y.a /\ x.i < y.i)
SortBin(S) == LET n == Cardinality(S) IN TLCEval([r \in 1..n |-> CHOOSE x \in S : Cardinality({y \in S : BinBefore(y, x)}) = r - 1])

(* ---- what "evenly" means (relational: any allocation satisfying this is accepted) -------------- *)
Sum4(f) == f[1] + f[2] + f[3] + f[4]
Min2(a, b) == IF a < b THEN a ELSE b
EvenFill(ideal, supply, total, nofill, size) ==
  LET base  == TLCEval([i \in 1..4 |-> Min2(ideal[i], supply[i])])
      extra == TLCEval([i \in 1..4 |-> size[i] - base[i]])
      spare == TLCEval([i \in 1..4 |-> supply[i] - base[i]])
  IN /\ \A i \in 1..4 : base[i] <= size[i] /\ size[i] <= supply[i]
     /\ nofill => size = base
     /\ ~nofill =>
          /\ (Sum4(size) = Min2(total, Sum4(supply))) \/ ((\A i \in 1..4 : supply[i] >= ideal[i]) /\ size = ideal)
          /\ \A i, j \in 1..4 : extra[i] > extra[j] + 1 => extra[j] = spare[j]   \* nobody gets 2 more than a bin that still had spare
(* ideal sizes from --size-total *)
IdealOfTotal(S) == <<S - 3 * (S \div 4), S \div 4, S \div 4, S \div 4>>

(* balance() as coded: round-robin over same, up, down, side *)
RECURSIVE BalLoop(_, _, _, _, _, _)
BalLoop(size, avail, ideal, obs, total, i) ==
  IF Sum4(avail) = 0 THEN size
  ELSE LET can == obs[i] > ideal[i] /\ avail[i] > 0
           s2 == IF can THEN [size EXCEPT ![i] = @ + 1] ELSE size
           a2 == IF can THEN [avail EXCEPT ![i] = @ - 1] ELSE avail
       IN IF Sum4(s2) = total THEN s2 ELSE BalLoop(s2, a2, ideal, obs, total, IF i = 4 THEN 1 ELSE i + 1)
Balance(total, ideal, obs, nofill) ==
  IF \A i \in 1..4 : obs[i] >= ideal[i] THEN ideal
  ELSE LET size == [i \in 1..4 |-> Min2(ideal[i], obs[i])]
           avail == [i \in 1..4 |-> IF obs[i] > ideal[i] THEN obs[i] - ideal[i] ELSE 0]
       IN IF nofill THEN size ELSE BalLoop(size, avail, ideal, obs, total, 1)

(* ---- --dist-push k: the k smallest occurring distances of a bin --------------------------------- *)
KSmallest(D, k) == {d \in D : Cardinality({e \in D : e < d}) < k}
=============================================================================
