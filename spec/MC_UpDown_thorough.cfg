SPECIFICATION Spec
CONSTANTS
  ScanLen = 8
  MaxSz = 3
  PushLen = 6
INVARIANT ScanInv
INVARIANT BalInv
INVARIANT PushInv
CHECK_DEADLOCK FALSE
