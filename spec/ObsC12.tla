------------------------------- MODULE ObsC12 -------------------------------
(* Code -> spec for C12, the part that is not a trace: outputs of runs under   *)
(* imposed / jittered schedules, thread counts, processor counts and fresh map *)
(* seeds must be the input-order output of the single-threaded reference run.  *)
EXTENDS ObsBase
VARIABLES l, nbad
InOrder(o, n) == o = [k \in 1..n |-> k - 1]
(* `variants` with the reference as record 1 of the alignment: the output skips pipeline index 1 *)
ExpOrder(v) == IF v.cmd = "variantsref" /\ v.N > 1 THEN [k \in 1..v.N |-> IF k = 1 THEN 0 ELSE k] ELSE [k \in 1..v.N |-> k - 1]
FailedPipe(o) ==
  LET v == o.vec  b == o.obs IN
  IF b.iserr THEN {"unexpected-error"} ELSE
    (IF b.order = ExpOrder(v) THEN {} ELSE {"input-order"})
    \cup (IF b.header_ok /\ b.records_same /\ b.bytes_equal THEN {} ELSE {"bytes-differ"})
FailedCli(o) ==
  LET v == o.vec  b == o.obs  r == b.runs IN
    (IF \A k \in 1..Len(r) : r[k].exit = 0 /\ ~r[k].timeout THEN {} ELSE {"run-failed"})
    \cup (IF b.ndistinct = 1 /\ \A k \in 1..Len(r) : r[k].same_as_first THEN {} ELSE {"runs-differ"})
    \cup (IF \A k \in 1..Len(r) : r[k].same_as_base THEN {} ELSE {"differs-from-single-thread"})
    \cup (IF Has(b, "order") /\ Has(v, "N") /\ ~InOrder(b.order, v.N) THEN {"input-order"} ELSE {})
    \cup (IF b.race_report THEN {"data-race"} ELSE {})
Failed(o) ==
  IF o.obs.panic THEN {"panic"} ELSE IF o.obs.timeout THEN {"timeout"} ELSE
  IF o.vec.fam = "pipe" THEN FailedPipe(o) ELSE FailedCli(o)
Init == l = 1 /\ nbad = 0
Next == /\ l <= Len(Trace)
        /\ LET o == Trace[l]  bad == Failed(o) IN
             /\ \A cl \in bad : Emit(FailFile, [line |-> l, id |-> o.id, clause |-> cl, signature |-> o.vec.sig])
             /\ nbad' = nbad + Cardinality(bad)
        /\ l' = l + 1
Post == TLCGet("stats").diameter = Len(Trace) + 1
=============================================================================
