SPECIFICATION Spec
CONSTANTS
  Q = 2
  NT = 3
  Cap = 2
  Faults = {"rd", "width", "wr"}
  IgnoreRowErr = FALSE
  WPR = 1
  IgnoreHdrErr = FALSE
INVARIANT DoneOK
INVARIANT EveryTargetToEveryQuery
INVARIANT ErrSafety
PROPERTY Termination
PROPERTY ErrReported
CHECK_DEADLOCK FALSE
