----------------------------- MODULE GenbankScan -----------------------------
(***************************************************************************)
(* The FEATURES table reader of pkg/genbank (parseGenbankFEATURES) at the   *)
(* abstraction of line kinds - an extension of the specification beyond the *)
(* listed properties (the GenBank side of C04/C14 goes through it).         *)
(*                                                                          *)
(* A line of the table is one of the kinds below.  For each kind the table  *)
(* K gives the text, its class and what the reader's character loop makes   *)
(* of it: key, the value characters it contributes (quotes and - a named    *)
(* deviation - every '=' removed), whether it leaves a quotation open       *)
(* (odd number of quotes), the number of blank-separated fields, and        *)
(* whether its first non-blank character is '/'.                             *)
(*                                                                          *)
(* FeaturesOf(ls) is the feature table format's meaning of a well-formed    *)
(* table (feature key in column 6, qualifiers in column 22, a quoted value  *)
(* runs to its closing quote, continuation lines are appended); Scan(ls) is *)
(* the reader, one action per branch, with its refusals-by-panic.  MC:      *)
(* WellFormed(ls) => Scan(ls) = FeaturesOf(ls); the deviations outside the  *)
(* well-formed tables are named and must still be found.                    *)
(***************************************************************************)
EXTENDS Integers, Sequences, FiniteSets, TLC

K == [
  Fa |-> [text |-> "     CDS             2..10", cls |-> "feat", raw |-> "CDS             2..10", tog |-> FALSE, nf |-> 2, slash |-> FALSE, skey |-> "", sval |-> "", f1 |-> "CDS", f2 |-> "2..10", feat |-> "CDS", loc |-> "2..10", key |-> "", fval |-> ""],
  Fb |-> [text |-> "     gene            complement(3..8)", cls |-> "feat", raw |-> "gene            complement(3..8)", tog |-> FALSE, nf |-> 2, slash |-> FALSE, skey |-> "", sval |-> "", f1 |-> "gene", f2 |-> "complement(3..8)", feat |-> "gene", loc |-> "complement(3..8)", key |-> "", fval |-> ""],
  Qg |-> [text |-> "                     /gene=\"G\"", cls |-> "qual", raw |-> "/gene=G", tog |-> FALSE, nf |-> 1, slash |-> TRUE, skey |-> "gene", sval |-> "G", f1 |-> "/gene=\"G\"", f2 |-> "", feat |-> "", loc |-> "", key |-> "gene", fval |-> "G"],
  Qn |-> [text |-> "                     /codon_start=1", cls |-> "qual", raw |-> "/codon_start=1", tog |-> FALSE, nf |-> 1, slash |-> TRUE, skey |-> "codon_start", sval |-> "1", f1 |-> "/codon_start=1", f2 |-> "", feat |-> "", loc |-> "", key |-> "codon_start", fval |-> "1"],
  Qf |-> [text |-> "                     /pseudo", cls |-> "qual", raw |-> "/pseudo", tog |-> FALSE, nf |-> 1, slash |-> TRUE, skey |-> "pseudo", sval |-> "", f1 |-> "/pseudo", f2 |-> "", feat |-> "", loc |-> "", key |-> "pseudo", fval |-> ""],
  Qp |-> [text |-> "                     /product=\"two words\"", cls |-> "qual", raw |-> "/product=two words", tog |-> FALSE, nf |-> 2, slash |-> TRUE, skey |-> "product", sval |-> "two words", f1 |-> "/product=\"two", f2 |-> "words\"", feat |-> "", loc |-> "", key |-> "product", fval |-> "two words"],
  Qe |-> [text |-> "                     /note=\"a=b\"", cls |-> "qual", raw |-> "/note=a=b", tog |-> FALSE, nf |-> 1, slash |-> TRUE, skey |-> "note", sval |-> "ab", f1 |-> "/note=\"a=b\"", f2 |-> "", feat |-> "", loc |-> "", key |-> "note", fval |-> "a=b"],
  Qo |-> [text |-> "                     /translation=\"MKV", cls |-> "qual", raw |-> "/translation=MKV", tog |-> TRUE, nf |-> 1, slash |-> TRUE, skey |-> "translation", sval |-> "MKV", f1 |-> "/translation=\"MKV", f2 |-> "", feat |-> "", loc |-> "", key |-> "translation", fval |-> "MKV"],
  Cm |-> [text |-> "                     LLT", cls |-> "cont", raw |-> "LLT", tog |-> FALSE, nf |-> 1, slash |-> FALSE, skey |-> "", sval |-> "", f1 |-> "LLT", f2 |-> "", feat |-> "", loc |-> "", key |-> "", fval |-> "LLT"],
  Ct |-> [text |-> "                     two words", cls |-> "cont", raw |-> "two words", tog |-> FALSE, nf |-> 2, slash |-> FALSE, skey |-> "", sval |-> "", f1 |-> "two", f2 |-> "words", feat |-> "", loc |-> "", key |-> "", fval |-> "two words"],
  Cs |-> [text |-> "                     /path", cls |-> "cont", raw |-> "/path", tog |-> FALSE, nf |-> 1, slash |-> TRUE, skey |-> "path", sval |-> "", f1 |-> "/path", f2 |-> "", feat |-> "", loc |-> "", key |-> "", fval |-> "/path"],
  Cc |-> [text |-> "                     GSA\"", cls |-> "cont", raw |-> "GSA", tog |-> TRUE, nf |-> 1, slash |-> FALSE, skey |-> "", sval |-> "", f1 |-> "GSA\"", f2 |-> "", feat |-> "", loc |-> "", key |-> "", fval |-> "GSA"],
  Cd |-> [text |-> "                     end here\"", cls |-> "cont", raw |-> "end here", tog |-> TRUE, nf |-> 2, slash |-> FALSE, skey |-> "", sval |-> "", f1 |-> "end", f2 |-> "here\"", feat |-> "", loc |-> "", key |-> "", fval |-> "end here"],
  Ws |-> [text |-> "                     ", cls |-> "blank", raw |-> "", tog |-> FALSE, nf |-> 0, slash |-> FALSE, skey |-> "", sval |-> "", f1 |-> "", f2 |-> "", feat |-> "", loc |-> "", key |-> "", fval |-> ""]
]
Kinds == DOMAIN K
Cls(k) == K[k].cls
Opens(k) == Cls(k) = "qual" /\ K[k].tog          \* a qualifier line that leaves its quotation open
Closes(k) == Cls(k) = "cont" /\ K[k].tog         \* a continuation line that closes it

(* ---- the format's meaning of a well-formed table ------------------------------- *)
(* first line a feature; continuation lines only inside an open quotation; every quotation closed
   before the next qualifier or feature; no blank lines *)
RECURSIVE WF(_, _, _)
WF(ls, i, open) ==
  IF i > Len(ls) THEN ~open
  ELSE LET k == ls[i] IN
       CASE Cls(k) = "feat"  -> ~open /\ WF(ls, i + 1, FALSE)
         [] Cls(k) = "qual"  -> ~open /\ WF(ls, i + 1, Opens(k))
         [] Cls(k) = "cont"  -> open /\ WF(ls, i + 1, ~Closes(k))
         [] Cls(k) = "blank" -> FALSE
WellFormed(ls) == Len(ls) > 0 /\ Cls(ls[1]) = "feat" /\ WF(ls, 1, FALSE)

(* qualifiers of the lines i..b of a well-formed table; a later value replaces an earlier one of the same key;
   continuation lines are appended without a separator (as for /translation) *)
Put(info, k, v) == {p \in info : p[1] # k} \cup {<<k, v>>}
RECURSIVE Quals(_, _, _, _, _)
Quals(ls, i, b, key, acc) ==       \* acc: set of <<key, value>>; key: the qualifier being continued
  IF i > b THEN acc
  ELSE LET k == ls[i] IN
       IF Cls(k) = "qual" THEN Quals(ls, i + 1, b, K[k].key, Put(acc, K[k].key, K[k].fval))
       ELSE LET old == CHOOSE p \in acc : p[1] = key IN Quals(ls, i + 1, b, key, Put(acc, key, old[2] \o K[k].fval))
FeatIdx(ls) == SelectSeq([i \in 1..Len(ls) |-> i], LAMBDA i : Cls(ls[i]) = "feat")
FeaturesOf(ls) ==
  LET h == FeatIdx(ls) IN
  [n \in 1..Len(h) |-> [feat |-> K[ls[h[n]]].feat, loc |-> K[ls[h[n]]].loc,
                        info |-> Quals(ls, h[n] + 1, IF n = Len(h) THEN Len(ls) ELSE h[n + 1] - 1, "", {})]]

(* ---- the reader, one action per branch -------------------------------------------- *)
(* state: started (a feature record exists), closed (quoteClosed), key / val (the two buffers), cur, feats, panic *)
ScanInit == [started |-> FALSE, closed |-> TRUE, key |-> "", val |-> "", cur |-> [feat |-> "", loc |-> "", info |-> {}], feats |-> <<>>, panic |-> FALSE]
IsFeatureLine(k, closed) == closed /\ K[k].nf = 2 /\ ~K[k].slash              \* two fields, the first not starting with '/'
AsFeat(k) == [feat |-> K[k].f1, loc |-> K[k].f2, info |-> {}]
LineStep(st, k, i) ==
  IF st.panic THEN st
  ELSE IF IsFeatureLine(k, st.closed) /\ i = 1
       THEN [st EXCEPT !.started = TRUE, !.cur = AsFeat(k), !.key = "", !.val = ""]                          \* FirstFeature
  ELSE IF Cls(k) = "blank" THEN [st EXCEPT !.panic = TRUE]                                                   \* TrimSpace(line)[0] of a blank line
  ELSE IF K[k].slash /\ st.key = ""
       THEN [st EXCEPT !.key = K[k].skey, !.val = K[k].sval, !.closed = ~K[k].tog]                           \* QualFirst
  ELSE IF ~st.closed
       THEN [st EXCEPT !.val = @ \o K[k].raw, !.closed = IF K[k].tog THEN ~@ ELSE @]                         \* Continue
  ELSE IF K[k].slash
       THEN IF ~st.started THEN [st EXCEPT !.panic = TRUE]                                                   \* assignment to entry in nil map
            ELSE [st EXCEPT !.cur.info = Put(@, st.key, st.val), !.key = K[k].skey, !.val = K[k].sval, !.closed = ~K[k].tog]   \* QualNext
  ELSE IF IsFeatureLine(k, st.closed)
       THEN IF ~st.started THEN [st EXCEPT !.panic = TRUE]
            ELSE [st EXCEPT !.feats = Append(@, [st.cur EXCEPT !.info = Put(@, st.key, st.val)]), !.cur = AsFeat(k), !.key = "", !.val = ""]   \* NextFeature
  ELSE st                                                                                                    \* Ignored
RECURSIVE Run(_, _, _)
Run(st, ls, i) == IF i > Len(ls) THEN st ELSE Run(LineStep(st, ls[i], i), ls, i + 1)
Finish(st) ==
  IF st.panic THEN st
  ELSE IF st.key # "" /\ st.val # ""
       THEN (IF ~st.started THEN [st EXCEPT !.panic = TRUE] ELSE [st EXCEPT !.feats = Append(@, [st.cur EXCEPT !.info = Put(@, st.key, st.val)])])
       ELSE [st EXCEPT !.feats = Append(@, st.cur)]
Scan(ls) == Finish(Run(ScanInit, ls, 1))

(* ---- the reader against the format ------------------------------------------------- *)
(* Named deviations of the reader's bookkeeping, removed before comparing: a feature without qualifiers that is     *)
(* followed by another feature gets an entry with an empty key; a table's last qualifier is lost when its value is  *)
(* empty (a flag such as /pseudo) while the same flag elsewhere is kept with an empty value.                         *)
Visible(info) == {p \in info : p[1] # "" /\ p[2] # ""}
SameTable(a, b) == Len(a) = Len(b) /\ \A n \in 1..Len(a) : a[n].feat = b[n].feat /\ a[n].loc = b[n].loc /\ Visible(a[n].info) = Visible(b[n].info)
HasKind(ls, k) == \E i \in 1..Len(ls) : ls[i] = k
=============================================================================
