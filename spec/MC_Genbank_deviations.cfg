CONSTANT MaxLines = 4
INIT Init
NEXT Next
INVARIANTS EqualsKept NoEmptyKey FlagsKept NoPanic
CHECK_DEADLOCK FALSE
