----------------------------- MODULE MCLocation -----------------------------
(* Every location tree within the bounds, one initial state each.           *)
EXTENDS Location
CONSTANTS MaxDepth, MaxKids, Leaves
VARIABLE t
LeavesSmall == {<<"r", 2, 4>>, <<"r", 6, 6>>, <<"r", 8, 9>>, <<"n", 5>>, <<"p", 1, 3>>}
LeavesTiny == {<<"r", 2, 4>>, <<"r", 7, 8>>, <<"n", 5>>}
RECURSIVE Trees(_)
Trees(d) == IF d = 0 THEN Leaves
            ELSE LET S == Trees(d - 1) IN
                 S \cup {<<op, cs>> : op \in {"j", "c"}, cs \in UNION {[1..n -> S] : n \in 1..MaxKids}}
AllTrees == TLCEval(Trees(MaxDepth))
Init == t \in AllTrees
Next == UNCHANGED t
(* what the parser accepts is what the definition says, as long as no partial range is involved *)
Sound == (~HasKind(t, "p") /\ WellFormed(t) /\ Parse(t).class = "ok") => Parse(t).pos = Den(t)
(* the documented forms are all read *)
Complete == Documented(t) => Parse(t).class = "ok"
(* strands: a documented location on one strand is reverse iff its spans sit under an odd number of complements *)
StrandOK == (Documented(t) /\ Cardinality(Parity(t, 0)) = 1) => (Reverse(t) = "reverse") = (Parity(t, 0) = {1})
(* named deviations: TLC must find each of them (checked as must-fail invariants) *)
NoSilentLoss == (WellFormed(t) /\ Parse(t).class = "ok") => Parse(t).pos = Den(t)       \* fails: a partial range inside a nested operator reads as nothing
StrandByOrderOK == (Documented(t) /\ Cardinality(Parity(t, 0)) = 1) => (ReverseByOrder(t) = "reverse") = (Parity(t, 0) = {1})  \* fails: join(8..9,2..4)
NoPanic == WellFormed(t) => Parse(t).class # "panic"                                    \* fails: single bases, bare ranges next to operators (mixed strands)
=============================================================================
