-------------------------------- MODULE MCGff --------------------------------
EXTENDS GffScan
CONSTANT MaxLines
VARIABLE ls
Init == ls \in UNION {[1..n -> GKinds] : n \in 1..MaxLines}
Next == UNCHANGED ls
HasRow(x) == \E i \in 1..Len(x) : ValidRow(x[i])
(* a well-formed file with at least one row is read as the format says; equal-width FASTA records assumed by the list reader *)
Sound == (GWellFormed(ls) /\ GScan(ls).err = "") => (GScan(ls).feats = FileOf(ls).feats /\ (HasRow(ls) => GScan(ls).version = "3"))
Accepts == (GWellFormed(ls) /\ ~(\E i \in 1..Len(ls) : ls[i] \in {"Fh"})) => GScan(ls).err = ""
(* named deviations *)
VersionAlways == (~(\E i \in 1..Len(ls) : ls[i] \in {"Hv"}) /\ ~(\E i \in 1..Len(ls) : GCls(ls[i]) = "row")) => GScan(ls).err # ""    \* fails: no row, no check
BlankTolerated == (Len(ls) > 1 /\ ls[1] = "Hv" /\ \A i \in 2..Len(ls) : ls[i] \in {"Rc", "Bl"}) => GScan(ls).err = ""                    \* fails
TrailingSemicolon == (Len(ls) = 2 /\ ls[1] = "Hv" /\ ls[2] = "Ra") => GScan(ls).err = ""                                                  \* fails
HyphenInSeqid == (Len(ls) = 2 /\ ls[1] = "Hv" /\ ls[2] = "Rm") => GScan(ls).err = ""                                                     \* fails
=============================================================================
