INIT Init
NEXT Next
CONSTANTS
  ListLen = 6
  MaxSz = 2
INVARIANT EmitInv
CHECK_DEADLOCK FALSE
