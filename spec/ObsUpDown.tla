------------------------------ MODULE ObsUpDown ------------------------------
(* Code -> spec for updown list (C10), updown topranking (C08) and the          *)
(* csv/fasta input combinations (C09).  Clause prefixes C08-, C09-, C10-.       *)
EXTENDS UpDown, ObsBase
VARIABLES l, nbad

HasOpts(v) == Has(v, "opts")

(* ---- C10 -------------------------------------------------------------------------- *)
ListOK(ref, seqs, lo) ==
  /\ lo.err = "" /\ lo.header = "query,SNPs,ambiguities,SNPcount,ambcount"
  /\ Len(lo.rows) = Len(seqs)
  /\ \A k \in 1..Len(seqs) :
       LET row == lo.rows[k]  want == ListRow(ref, seqs[k]) IN
       /\ row.i = k
       /\ row.snps = want.snps
       /\ [j \in 1..Len(row.ambs) |-> <<row.ambs[j][1], row.ambs[j][2]>>] = want.ambs
       /\ \A j \in 1..Len(row.ambs) : (row.ambs[j][3] = 1) <=> (row.ambs[j][1] = row.ambs[j][2])     \* a run of length one is printed as a single number
       /\ row.snpcount = want.snpcount /\ row.ambcount = want.ambcount

(* ---- C08 -------------------------------------------------------------------------- *)
BinIdx(b) == CASE b = "same" -> 1 [] b = "up" -> 2 [] b = "down" -> 3 [] b = "side" -> 4
AnySize(o) == o.sizetotal > 0 \/ o.sizesame > 0 \/ o.sizeup > 0 \/ o.sizedown > 0 \/ o.sizeside > 0
AnyDist(o) == o.distall > 0 \/ o.distup > 0 \/ o.distdown > 0 \/ o.distside > 0
DistLimit(o, b) ==      \* 1000000 = no limit
  IF ~AnyDist(o) THEN 1000000
  ELSE IF b = 1 THEN 0
  ELSE IF o.distall > 0 THEN o.distall
  ELSE (CASE b = 2 -> o.distup [] b = 3 -> o.distdown [] b = 4 -> o.distside)
Ideal(o) == IF o.sizetotal > 0 THEN IdealOfTotal(o.sizetotal) ELSE <<o.sizesame, o.sizeup, o.sizedown, o.sizeside>>
Total(o) == IF o.sizetotal > 0 THEN o.sizetotal ELSE o.sizesame + o.sizeup + o.sizedown + o.sizeside
Ignored(o, t) == \E k \in 1..Len(o.ignore) : o.ignore[k] = t

(* everything about one (query, target) pair, computed once *)
PairInfo(v, q, t) == [bin |-> BinIdx(BinOf(v.ref, v.queries[q], v.targets[t])), d |-> DistOf(v.ref, v.queries[q], v.targets[t]),
                      a |-> AmbCount(v.targets[t]), i |-> t,
                      ok |-> ~Ignored(v.opts, t) /\ AmbCount(v.targets[t]) <= v.opts.thrtarget
                             /\ PassesPair(v.ref, v.queries[q], v.targets[t], v.opts.thrnum, v.opts.thrden)]
Ctx(v) == TLCEval([q \in 1..Len(v.queries) |-> [t \in 1..Len(v.targets) |-> PairInfo(v, q, t)]])
Cand(v, c, q, b, limited) == {c[q][t] : t \in {t \in 1..Len(v.targets) : c[q][t].ok /\ c[q][t].bin = b /\ (~limited \/ c[q][t].d <= DistLimit(v.opts, b))}}

ObservedBins(top, q, table) ==     \* <<same, up, down, side>> target-index sequences for query q
  IF table THEN [b \in 1..4 |-> LET s == SelectSeq(top.rows, LAMBDA r : r.qi = q /\ BinIdx(r.dir) = b) IN [k \in 1..Len(s) |-> s[k].ti]]
  ELSE LET r == top.rows[q] IN <<r.same, r.up, r.down, r.side>>

QuerySizeOK(v, c, q, ob) ==        \* --size / --dist mode: each bin a prefix of its candidates in bin order, sizes evenly filled
  LET o == v.opts
      sorted == TLCEval([b \in 1..4 |-> SortBin(Cand(v, c, q, b, TRUE))])
      supply == TLCEval([b \in 1..4 |-> Len(sorted[b])])
      n == TLCEval([b \in 1..4 |-> Len(ob[b])])
  IN /\ \A b \in 1..4 : n[b] <= supply[b] /\ ob[b] = [k \in 1..n[b] |-> sorted[b][k].i]
     /\ IF AnySize(o) THEN EvenFill(Ideal(o), supply, Total(o), o.nofill, n) /\ Sum4(n) <= Total(o)
        ELSE n = supply
QueryPushOK(v, c, q, ob) ==        \* --dist-push k: up/down/side = the targets at the k smallest occurring distances, nearest first
  /\ {ob[1][k] : k \in 1..Len(ob[1])} = {x.i : x \in Cand(v, c, q, 1, FALSE)} /\ Len(ob[1]) = Cardinality(Cand(v, c, q, 1, FALSE))
  /\ \A b \in 2..4 :
       LET C == TLCEval(Cand(v, c, q, b, FALSE))
           K == TLCEval(KSmallest({x.d : x \in C}, v.opts.push))
           want == TLCEval({x \in C : x.d \in K})
       IN /\ {ob[b][k] : k \in 1..Len(ob[b])} = {x.i : x \in want} /\ Len(ob[b]) = Cardinality(want)
          /\ \A k \in 1..(Len(ob[b]) - 1) : c[q][ob[b][k]].d <= c[q][ob[b][k + 1]].d
TableOK(v, c, top) ==
  /\ \A k \in 1..Len(top.rows) : ~Has(top.rows[k], "bad") /\ top.rows[k].qi \in 1..Len(v.queries) /\ top.rows[k].ti \in 1..Len(v.targets)
       /\ top.rows[k].dir \in {"same", "up", "down", "side"}
  /\ \A k \in 1..Len(top.rows) : top.rows[k].dist = c[top.rows[k].qi][top.rows[k].ti].d
  /\ \A k \in 1..(Len(top.rows) - 1) : \/ top.rows[k].qi < top.rows[k + 1].qi
                                       \/ (top.rows[k].qi = top.rows[k + 1].qi /\ BinIdx(top.rows[k].dir) <= BinIdx(top.rows[k + 1].dir))
ListShapeOK(v, top) ==
  /\ Len(top.rows) = Len(v.queries)
  /\ \A k \in 1..Len(top.rows) : ~Has(top.rows[k], "bad") /\ top.rows[k].qi = k
  /\ \A k \in 1..Len(top.rows) : \A b \in 1..4 : \A j \in 1..Len(ObservedBins(top, k, FALSE)[b]) : ObservedBins(top, k, FALSE)[b][j] \in 1..Len(v.targets)

TopFailed(v, top) ==
  IF top.err # "" THEN {"C08-error"} ELSE
  LET table == v.opts.table  c == Ctx(v) IN
  IF top.header # (IF table THEN "query,direction,distance,target" ELSE "query,closestsame,closestup,closestdown,closestside") THEN {"C08-header"} ELSE
  IF table /\ ~TableOK(v, c, top) THEN {"C08-table"} ELSE
  IF ~table /\ ~ListShapeOK(v, top) THEN {"C08-row-per-query"} ELSE
  IF v.opts.push > 0
  THEN (IF \A q \in 1..Len(v.queries) : QueryPushOK(v, c, q, TLCEval(ObservedBins(top, q, table))) THEN {} ELSE {"C08-dist-push"})
  ELSE (IF \A q \in 1..Len(v.queries) : QuerySizeOK(v, c, q, TLCEval(ObservedBins(top, q, table))) THEN {} ELSE {"C08-bins"})

(* ---- C09 -------------------------------------------------------------------------- *)
CombosFailed(v, o) ==
  IF ~Has(o, "combos") THEN {} ELSE
    (IF o.combos.fc THEN {} ELSE {"C09-fasta-query-csv-target"})
    \cup (IF o.combos.cf THEN {} ELSE {"C09-csv-query-fasta-target"})
    \cup (IF o.combos.cc THEN {} ELSE {"C09-csv-query-csv-target"})

Failed(o) ==
  IF o.obs.panic THEN {"panic"} ELSE IF o.obs.timeout THEN {"timeout"} ELSE
  LET v == o.vec IN
  IF Has(v, "wide") THEN (IF o.obs.top.err = "" THEN CombosFailed(v, o.obs) ELSE {"C08-error"}) ELSE      \* (12,000 columns: the four input combinations only)
    (IF ListOK(v.ref, v.targets, o.obs.tlist) /\ ListOK(v.ref, v.queries, o.obs.qlist) THEN {} ELSE {"C10-list-row"})
    \cup (IF CliBadAt(o.obs, "list_") THEN {"C10-cli-wiring"} ELSE {})
    \cup (IF HasOpts(v) /\ CliBad(o.obs.top) THEN {"C08-cli-wiring"} ELSE {})
    \cup (IF HasOpts(v) THEN TopFailed(v, o.obs.top) \cup CombosFailed(v, o.obs) ELSE {})

Sig(o, cl) == cl \o (IF HasOpts(o.vec) /\ Len(o.vec.queries) > 1 THEN ":multi-query" ELSE "")

Init == l = 1 /\ nbad = 0
Next == /\ l <= Len(Trace)
        /\ LET o == Trace[l]  bad == Failed(o) IN
             /\ \A cl \in bad : Emit(FailFile, [line |-> l, id |-> o.id, clause |-> cl, signature |-> Sig(o, cl)])
             /\ nbad' = nbad + Cardinality(bad)
        /\ l' = l + 1
Post == TLCGet("stats").diameter = Len(Trace) + 1
=============================================================================
