------------------------------- MODULE GffScan -------------------------------
(***************************************************************************)
(* The GFF3 reader of pkg/gff (ReadGFF) at the abstraction of line kinds - *)
(* an extension of the specification beyond the listed properties (the GFF  *)
(* side of C14 goes through it).  The table K gives, for every kind, its    *)
(* text and what the reader's field parsers make of it when it is taken for *)
(* a feature row (rerr: the class of error, or the parsed fields) or for a  *)
(* directive (version / sequence-region).  The ##FASTA section is read by   *)
(* the list reader of FastaScan (kinds ha / AC / bl there).                 *)
(*                                                                          *)
(* Scan(ls) is the reader, one step per line and branch: InFasta, StartFasta,*)
(* Directive, Comment, Row (with the header checks that run when the first  *)
(* row is met), then the FASTA section.  FileOf(ls) is the format's meaning *)
(* of a well-formed file.  Named deviations: the version directive is only  *)
(* looked at when a row follows; a blank line, a trailing ';' in the        *)
(* attributes and a '-' in the sequence ID are refused.                     *)
(***************************************************************************)
EXTENDS Integers, Sequences, FiniteSets, TLC, FastaScan

K == [
  Hv |-> [text |-> "##gff-version 3", cls |-> "dir", rerr |-> "fields", typ |-> "", start |-> 0, end |-> 0, strand |-> "", phase |-> 0, attrs |-> {}, id |-> "", isver |-> TRUE, verr |-> FALSE, ver |-> "3", issr |-> FALSE, srerr |-> "", sr |-> <<>>],
  Hw |-> [text |-> "##gff-version", cls |-> "dir", rerr |-> "fields", typ |-> "", start |-> 0, end |-> 0, strand |-> "", phase |-> 0, attrs |-> {}, id |-> "", isver |-> TRUE, verr |-> TRUE, ver |-> "", issr |-> FALSE, srerr |-> "", sr |-> <<>>],
  Hs |-> [text |-> "##sequence-region ref 1 30", cls |-> "dir", rerr |-> "fields", typ |-> "", start |-> 0, end |-> 0, strand |-> "", phase |-> 0, attrs |-> {}, id |-> "", isver |-> FALSE, verr |-> FALSE, ver |-> "", issr |-> TRUE, srerr |-> "", sr |-> <<"ref", 1, 30>>],
  Ht |-> [text |-> "##sequence-region ref 1", cls |-> "dir", rerr |-> "fields", typ |-> "", start |-> 0, end |-> 0, strand |-> "", phase |-> 0, attrs |-> {}, id |-> "", isver |-> FALSE, verr |-> FALSE, ver |-> "", issr |-> TRUE, srerr |-> "seqreg", sr |-> <<>>],
  Hn |-> [text |-> "##sequence-region ref one 30", cls |-> "dir", rerr |-> "fields", typ |-> "", start |-> 0, end |-> 0, strand |-> "", phase |-> 0, attrs |-> {}, id |-> "", isver |-> FALSE, verr |-> FALSE, ver |-> "", issr |-> TRUE, srerr |-> "atoi", sr |-> <<>>],
  Ho |-> [text |-> "##species test", cls |-> "dir", rerr |-> "fields", typ |-> "", start |-> 0, end |-> 0, strand |-> "", phase |-> 0, attrs |-> {}, id |-> "", isver |-> FALSE, verr |-> FALSE, ver |-> "", issr |-> FALSE, srerr |-> "", sr |-> <<>>],
  Cm |-> [text |-> "#a comment", cls |-> "com", rerr |-> "fields", typ |-> "", start |-> 0, end |-> 0, strand |-> "", phase |-> 0, attrs |-> {}, id |-> "", isver |-> FALSE, verr |-> FALSE, ver |-> "", issr |-> FALSE, srerr |-> "", sr |-> <<>>],
  Rc |-> [text |-> "ref\t.\tCDS\t4\t15\t.\t+\t0\tID=c1;Name=g1", cls |-> "row", rerr |-> "", typ |-> "CDS", start |-> 4, end |-> 15, strand |-> "+", phase |-> 0, attrs |-> {<<"ID", <<"c1">>>>, <<"Name", <<"g1">>>>}, id |-> "c1", isver |-> FALSE, verr |-> FALSE, ver |-> "", issr |-> FALSE, srerr |-> "", sr |-> <<>>],
  Rd |-> [text |-> "ref\t.\tCDS\t19\t30\t.\t-\t2\tID=c1;Parent=p1,p2;Name=g2", cls |-> "row", rerr |-> "", typ |-> "CDS", start |-> 19, end |-> 30, strand |-> "-", phase |-> 2, attrs |-> {<<"ID", <<"c1">>>>, <<"Parent", <<"p1", "p2">>>>, <<"Name", <<"g2">>>>}, id |-> "c1", isver |-> FALSE, verr |-> FALSE, ver |-> "", issr |-> FALSE, srerr |-> "", sr |-> <<>>],
  Rg |-> [text |-> "ref\t.\tgene\t4\t15\t.\t+\t.\tID=g1", cls |-> "row", rerr |-> "", typ |-> "gene", start |-> 4, end |-> 15, strand |-> "+", phase |-> 0, attrs |-> {<<"ID", <<"g1">>>>}, id |-> "g1", isver |-> FALSE, verr |-> FALSE, ver |-> "", issr |-> FALSE, srerr |-> "", sr |-> <<>>],
  Rp |-> [text |-> "ref\t.\tCDS\t4\t15\t.\t+\t.\tID=c3", cls |-> "row", rerr |-> "phase", typ |-> "", start |-> 0, end |-> 0, strand |-> "", phase |-> 0, attrs |-> {}, id |-> "", isver |-> FALSE, verr |-> FALSE, ver |-> "", issr |-> FALSE, srerr |-> "", sr |-> <<>>],
  Rq |-> [text |-> "ref\t.\tgene\t4\t15\t.\t+\t3\tID=g4", cls |-> "row", rerr |-> "phase", typ |-> "", start |-> 0, end |-> 0, strand |-> "", phase |-> 0, attrs |-> {}, id |-> "", isver |-> FALSE, verr |-> FALSE, ver |-> "", issr |-> FALSE, srerr |-> "", sr |-> <<>>],
  Rs |-> [text |-> "ref\t.\tCDS\t4\t15\t.\tx\t0\tID=c4", cls |-> "row", rerr |-> "strand", typ |-> "", start |-> 0, end |-> 0, strand |-> "", phase |-> 0, attrs |-> {}, id |-> "", isver |-> FALSE, verr |-> FALSE, ver |-> "", issr |-> FALSE, srerr |-> "", sr |-> <<>>],
  R8 |-> [text |-> "ref\t.\tCDS\t4\t15\t.\t+\t0", cls |-> "row", rerr |-> "fields", typ |-> "", start |-> 0, end |-> 0, strand |-> "", phase |-> 0, attrs |-> {}, id |-> "", isver |-> FALSE, verr |-> FALSE, ver |-> "", issr |-> FALSE, srerr |-> "", sr |-> <<>>],
  Ra |-> [text |-> "ref\t.\tCDS\t4\t15\t.\t+\t0\tID=c5;", cls |-> "row", rerr |-> "attrs", typ |-> "", start |-> 0, end |-> 0, strand |-> "", phase |-> 0, attrs |-> {}, id |-> "", isver |-> FALSE, verr |-> FALSE, ver |-> "", issr |-> FALSE, srerr |-> "", sr |-> <<>>],
  Rn |-> [text |-> "ref\t.\tCDS\tfour\t15\t.\t+\t0\tID=c6", cls |-> "row", rerr |-> "atoi", typ |-> "", start |-> 0, end |-> 0, strand |-> "", phase |-> 0, attrs |-> {}, id |-> "", isver |-> FALSE, verr |-> FALSE, ver |-> "", issr |-> FALSE, srerr |-> "", sr |-> <<>>],
  Rx |-> [text |-> "my seq\t.\tCDS\t4\t15\t.\t+\t0\tID=c7", cls |-> "row", rerr |-> "seqid", typ |-> "", start |-> 0, end |-> 0, strand |-> "", phase |-> 0, attrs |-> {}, id |-> "", isver |-> FALSE, verr |-> FALSE, ver |-> "", issr |-> FALSE, srerr |-> "", sr |-> <<>>],
  Rm |-> [text |-> "seq-1\t.\tCDS\t4\t15\t.\t+\t0\tID=c8", cls |-> "row", rerr |-> "seqid", typ |-> "", start |-> 0, end |-> 0, strand |-> "", phase |-> 0, attrs |-> {}, id |-> "", isver |-> FALSE, verr |-> FALSE, ver |-> "", issr |-> FALSE, srerr |-> "", sr |-> <<>>],
  Fa |-> [text |-> "##FASTA", cls |-> "fasta", rerr |-> "fields", typ |-> "", start |-> 0, end |-> 0, strand |-> "", phase |-> 0, attrs |-> {}, id |-> "", isver |-> FALSE, verr |-> FALSE, ver |-> "", issr |-> FALSE, srerr |-> "", sr |-> <<>>],
  Fh |-> [text |-> ">s1", cls |-> "fh", rerr |-> "fields", typ |-> "", start |-> 0, end |-> 0, strand |-> "", phase |-> 0, attrs |-> {}, id |-> "", isver |-> FALSE, verr |-> FALSE, ver |-> "", issr |-> FALSE, srerr |-> "", sr |-> <<>>],
  Fq |-> [text |-> "AC", cls |-> "fq", rerr |-> "fields", typ |-> "", start |-> 0, end |-> 0, strand |-> "", phase |-> 0, attrs |-> {}, id |-> "", isver |-> FALSE, verr |-> FALSE, ver |-> "", issr |-> FALSE, srerr |-> "", sr |-> <<>>],
  Bl |-> [text |-> "", cls |-> "blank", rerr |-> "fields", typ |-> "", start |-> 0, end |-> 0, strand |-> "", phase |-> 0, attrs |-> {}, id |-> "", isver |-> FALSE, verr |-> FALSE, ver |-> "", issr |-> FALSE, srerr |-> "", sr |-> <<>>]
]
GKinds == DOMAIN K
GCls(k) == K[k].cls
FastaKind(k) == CASE GCls(k) = "fh" -> "ha" [] GCls(k) = "fq" -> "AC" [] GCls(k) = "blank" -> "bl" [] OTHER -> "AZ"   \* (any other text: not a sequence line)

(* ---- the reader ------------------------------------------------------------------- *)
GInit == [infasta |-> FALSE, first |-> TRUE, header |-> <<>>, ncom |-> 0, feats |-> <<>>, fasta |-> <<>>, err |-> "",
          version |-> "", regions |-> {}]
HeaderChecks(st) ==       \* versionStringFromHeader, then setSequenceRegionsFromHeader, on the directives seen so far
  LET vs == SelectSeq(st.header, LAMBDA k : K[k].isver) IN
  IF vs = <<>> \/ K[vs[1]].verr THEN [st EXCEPT !.err = "version"]
  ELSE LET srs == SelectSeq(st.header, LAMBDA k : K[k].issr)
           bad == SelectSeq(srs, LAMBDA k : K[k].srerr # "")
       IN IF bad # <<>> THEN [st EXCEPT !.err = K[bad[1]].srerr, !.version = K[vs[1]].ver,
                                         !.regions = {K[srs[i]].sr : i \in {j \in 1..Len(srs) : \A m \in 1..j : K[srs[m]].srerr = ""}}]
          ELSE [st EXCEPT !.version = K[vs[1]].ver, !.regions = {K[srs[i]].sr : i \in 1..Len(srs)}]
Feat(k) == [typ |-> K[k].typ, start |-> K[k].start, end |-> K[k].end, strand |-> K[k].strand, phase |-> K[k].phase, attrs |-> K[k].attrs, id |-> K[k].id]
GStep(st, k) ==
  IF st.err # "" THEN st
  ELSE IF st.infasta THEN [st EXCEPT !.fasta = Append(@, k)]                                   \* InFasta
  ELSE IF GCls(k) = "fasta" THEN [st EXCEPT !.infasta = TRUE]                                   \* StartFasta
  ELSE IF GCls(k) = "dir" THEN [st EXCEPT !.header = Append(@, k)]                              \* Directive
  ELSE IF GCls(k) = "com" THEN [st EXCEPT !.ncom = @ + 1]                                       \* Comment
  ELSE LET s1 == IF st.first THEN [HeaderChecks(st) EXCEPT !.first = FALSE] ELSE st IN          \* Row
       IF s1.err # "" THEN s1
       ELSE IF K[k].rerr # "" THEN [s1 EXCEPT !.err = K[k].rerr]
       ELSE [s1 EXCEPT !.feats = Append(@, Feat(k))]
RECURSIVE GRun(_, _, _)
GRun(st, ls, i) == IF i > Len(ls) THEN st ELSE GRun(GStep(st, ls[i]), ls, i + 1)
(* the ##FASTA section through the list reader (FastaScan) *)
RECURSIVE FRun(_, _, _)
FRun(st, ls, i) == IF i > Len(ls) THEN Eof(st) ELSE FRun(LineStep(st, FastaKind(ls[i])), ls, i + 1)
GFinish(st) ==
  IF st.err # "" THEN [err |-> st.err, version |-> "", regions |-> {}, feats |-> <<>>, idmap |-> {}, fasta |-> {}, hasfasta |-> FALSE]
  ELSE LET f == IF st.fasta = <<>> THEN ScanInit ELSE FRun(ScanInit, st.fasta, 1)
           ids == {st.feats[i].id : i \in 1..Len(st.feats)} \ {""}
       IN IF f.err # "" THEN [err |-> "fasta", version |-> "", regions |-> {}, feats |-> <<>>, idmap |-> {}, fasta |-> {}, hasfasta |-> FALSE]
          ELSE [err |-> "", version |-> st.version, regions |-> st.regions, feats |-> st.feats,
                idmap |-> {<<id, SelectSeq([i \in 1..Len(st.feats) |-> i - 1], LAMBDA j : st.feats[j + 1].id = id)>> : id \in ids},
                fasta |-> {<<f.recs[n].id, f.recs[n].seq>> : n \in {m \in 1..Len(f.recs) : \A m2 \in (m + 1)..Len(f.recs) : f.recs[m2].id # f.recs[m].id}},
                hasfasta |-> st.fasta # <<>>]
GScan(ls) == GFinish(GRun(GInit, ls, 1))

(* ---- the format's meaning of a well-formed file ------------------------------------ *)
(* ##gff-version first, then directives / comments / valid rows in any order, then optionally ##FASTA and a valid FASTA *)
ValidRow(k) == GCls(k) = "row" /\ K[k].rerr = ""
GWellFormed(ls) ==
  /\ Len(ls) > 0 /\ ls[1] = "Hv"
  /\ \E n \in 1..Len(ls) :
       /\ \A i \in 1..n : ls[i] \in {"Hv", "Hs", "Ho", "Cm"} \/ ValidRow(ls[i])
       /\ (n = Len(ls)
           \/ (/\ n + 1 < Len(ls) /\ ls[n + 1] = "Fa" /\ GCls(ls[n + 2]) = "fh"
               /\ \A a \in (n + 2)..Len(ls) : GCls(ls[a]) \in {"fh", "fq"}
               /\ \A b \in (n + 2)..Len(ls) : GCls(ls[b]) = "fh" => (b < Len(ls) /\ GCls(ls[b + 1]) = "fq")))
RowsOf(ls) == SelectSeq(ls, LAMBDA k : ValidRow(k))
FileOf(ls) == [feats |-> [i \in 1..Len(RowsOf(ls)) |-> Feat(RowsOf(ls)[i])], version |-> "3"]
=============================================================================
