INIT Init
NEXT Next
CONSTANTS
  MaxOps = 4
  L = 7
INVARIANT EmitInv
CHECK_DEADLOCK FALSE
