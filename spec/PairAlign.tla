------------------------------ MODULE PairAlign ------------------------------
(***************************************************************************)
(* blockToSeqPair (topa.go), the re-gapping of the records of one query     *)
(* into a single pairwise alignment, as a state machine: one Regap step per *)
(* (insertion, other record) pair in start order, then PadRows, Flatten,    *)
(* ExtendRight, SwapNs.  It is the algorithm as repaired by commit cfbb3ff  *)
(* (OwnOffsets = TRUE).  OwnOffsets = FALSE is the column rule of the       *)
(* original code (a record's own insertions left of the anchor are ignored):*)
(* TLC must find that it does not refine PairOf.  (The original code's      *)
(* second defect, writing into a slice that aliases the one it copies from, *)
(* is a property of Go memory and has no counterpart at this level.)        *)
(* The machine is checked against the declarative PairOf of Sam.tla for     *)
(* every non-conflicting block of <= MaxRecs records from a menu of shapes. *)
(***************************************************************************)
EXTENDS Sam
CONSTANTS MaxRecs, OwnOffsets
VARIABLES ref, block, rrows, qrows, ins, k, j, offs, pc, R, Q
vars == <<ref, block, rrows, qrows, ins, k, j, offs, pc, R, Q>>

RefPat == <<"T","T","G","A","C","C","A","G">>
Pattern == <<"A","C","G","T","T","G","C","A","A","G","C","T","C","A","G","T">>
Rot(n, m) == [i \in 1..m |-> Pattern[((i + n - 1) % Len(Pattern)) + 1]]
Menu == << <<0, <<<<"M", 3>>>> >>, <<2, <<<<"M", 2>>, <<"D", 1>>, <<"M", 1>>>> >>, <<4, <<<<"M", 1>>, <<"I", 2>>, <<"M", 2>>>> >>,
           <<1, <<<<"S", 1>>, <<"M", 2>>, <<"N", 1>>, <<"M", 2>>>> >>, <<5, <<<<"M", 3>>>> >>, <<3, <<<<"M", 2>>>> >>,
           <<6, <<<<"I", 1>>, <<"M", 2>>>> >>, <<0, <<<<"H", 1>>, <<"M", 2>>, <<"I", 1>>, <<"M", 1>>, <<"H", 1>>>> >>,
           <<3, <<<<"M", 1>>, <<"P", 1>>, <<"I", 1>>, <<"M", 1>>>> >>, <<2, <<<<"M", 2>>, <<"I", 1>>>> >>,
           <<4, <<<<"D", 1>>, <<"M", 1>>, <<"I", 1>>, <<"D", 1>>, <<"M", 1>>>> >>,
           <<0, <<<<"I", 2>>, <<"M", 2>>>> >>, <<6, <<<<"M", 2>>, <<"I", 1>>>> >>,
           <<7, <<<<"I", 1>>, <<"M", 1>>>> >>, <<0, <<<<"M", 1>>, <<"I", 1>>, <<"M", 1>>, <<"I", 2>>, <<"M", 1>>>> >>, <<3, <<<<"I", 1>>, <<"M", 1>>>> >> >>
MRec(m, rot) == [q |-> 0, flag |-> 0, pos |-> Menu[m][1], cig |-> Menu[m][2], seq |-> Rot(rot, QryLen(Menu[m][2]))]

(* getOneLinePlusRef with insertions: the two left-aligned rows of one record *)
RECURSIVE WalkRef(_, _, _, _, _, _)
WalkRef(r, kk, qq, rr, qrow, rrow) ==
  IF kk > Len(r.cig) THEN <<qrow, rrow>>
  ELSE LET op == r.cig[kk][1]  n == r.cig[kk][2] IN
       CASE op \in {"M", "=", "X"} -> WalkRef(r, kk + 1, qq + n, rr + n, qrow \o SubSeq(r.seq, qq + 1, qq + n), rrow \o SubSeq(ref, rr + 1, rr + n))
         [] op = "I" -> WalkRef(r, kk + 1, qq + n, rr, qrow \o SubSeq(r.seq, qq + 1, qq + n), rrow \o Gaps(n))
         [] op = "D" -> WalkRef(r, kk + 1, qq, rr + n, qrow \o Gaps(n), rrow \o SubSeq(ref, rr + 1, rr + n))
         [] op = "N" -> WalkRef(r, kk + 1, qq, rr + n, qrow \o [i \in 1..n |-> "*"], rrow \o SubSeq(ref, rr + 1, rr + n))
         [] op = "S" -> WalkRef(r, kk + 1, qq + n, rr, qrow, rrow)
         [] OTHER -> WalkRef(r, kk + 1, qq, rr, qrow, rrow)
Rows(r) == WalkRef(r, 1, 0, r.pos, [i \in 1..r.pos |-> "*"], SubSeq(ref, 1, r.pos))
(* the insertions of the block, sorted by start *)
InsList(b) ==
  LET all == UNION {{[start |-> b[i].pos + RefBefore(b[i].cig, kk), len |-> b[i].cig[kk][2], row |-> i, op |-> kk] : kk \in {x \in 1..Len(b[i].cig) : b[i].cig[x][1] = "I"}} : i \in 1..Len(b)}
      before(x, y) == x.start < y.start \/ (x.start = y.start /\ (x.row < y.row \/ (x.row = y.row /\ x.op < y.op)))
  IN [n \in 1..Cardinality(all) |-> CHOOSE x \in all : Cardinality({y \in all : before(y, x)}) = n - 1]
RECURSIVE InsBefore(_, _, _, _)
InsBefore(c, kk, p, a) == IF kk > Len(c) THEN 0
                          ELSE (IF c[kk][1] = "I" /\ p < a THEN c[kk][2] ELSE 0) + InsBefore(c, kk + 1, IF ConsRef(c[kk][1]) THEN p + c[kk][2] ELSE p, a)
Splice(row, col, n) == SubSeq(row, 1, col) \o Gaps(n) \o SubSeq(row, col + 1, Len(row))

Init == /\ ref = RefPat
        /\ \E n \in 1..MaxRecs : \E ms \in [1..n -> 1..Len(Menu)] :
              /\ block = [i \in 1..n |-> MRec(ms[i], 3 * i)]
              /\ NonConflicting(block)
        /\ rrows = [i \in 1..Len(block) |-> Rows(block[i])[2]]
        /\ qrows = [i \in 1..Len(block) |-> Rows(block[i])[1]]
        /\ ins = InsList(block) /\ k = 1 /\ j = 1
        /\ offs = [i \in 1..Len(block) |-> 0]
        /\ pc = "regap" /\ R = <<>> /\ Q = <<>>
RefEnd(r) == r.pos + RefSpan(r.cig)
Advance == IF j = Len(block) THEN k' = k + 1 /\ j' = 1 ELSE k' = k /\ j' = j + 1
RegapOwn ==      \* the insertion already exists in this row
  /\ pc = "regap" /\ k <= Len(ins) /\ ins[k].row = j
  /\ Advance /\ UNCHANGED <<ref, block, rrows, qrows, ins, offs, pc, R, Q>>
RegapSkip ==     \* the row ends before the insertion
  /\ pc = "regap" /\ k <= Len(ins) /\ ins[k].row # j /\ ins[k].start > RefEnd(block[j])
  /\ Advance /\ UNCHANGED <<ref, block, rrows, qrows, ins, offs, pc, R, Q>>
Regap ==         \* gaps go in front of the column that holds reference base ins.start + 1 in this row
  /\ pc = "regap" /\ k <= Len(ins) /\ ins[k].row # j /\ ins[k].start <= RefEnd(block[j])
  /\ LET own == IF OwnOffsets THEN InsBefore(block[j].cig, 1, block[j].pos, ins[k].start) ELSE 0
         col == ins[k].start + offs[j] + own
     IN /\ col <= Len(rrows[j])              \* (the code would index out of range otherwise)
        /\ rrows' = [rrows EXCEPT ![j] = Splice(@, col, ins[k].len)]
        /\ qrows' = [qrows EXCEPT ![j] = Splice(@, col, ins[k].len)]
  /\ offs' = [offs EXCEPT ![j] = @ + ins[k].len]
  /\ Advance /\ UNCHANGED <<ref, block, ins, pc, R, Q>>
MaxLen(rows) == CHOOSE n \in {Len(rows[i]) : i \in 1..Len(rows)} : \A i \in 1..Len(rows) : Len(rows[i]) <= n
PadTo(row, n) == row \o [i \in 1..(n - Len(row)) |-> "*"]
Finish ==        \* PadRows, Flatten, ExtendRight, SwapNs
  /\ pc = "regap" /\ k = Len(ins) + 1
  /\ LET n == MaxLen(rrows)
         Rf == [c \in 1..n |-> FlatCol({PadTo(rrows[i], n)[c] : i \in 1..Len(rrows)})]
         Qf == [c \in 1..n |-> FlatCol({PadTo(qrows[i], n)[c] : i \in 1..Len(qrows)})]
         total == LET RECURSIVE S(_) S(x) == IF x = 0 THEN 0 ELSE ins[x].len + S(x - 1) IN S(Len(ins))
         diff == (total + Len(ref)) - n
     IN IF diff > 0 THEN R' = Rf \o SubSeq(ref, Len(ref) - diff + 1, Len(ref)) /\ Q' = SwapN(Qf \o [i \in 1..diff |-> "*"])
                    ELSE R' = Rf /\ Q' = SwapN(Qf)
  /\ pc' = "done" /\ UNCHANGED <<ref, block, rrows, qrows, ins, k, j, offs>>
Next == RegapOwn \/ RegapSkip \/ Regap \/ Finish
Spec == Init /\ [][Next]_vars

Refines == pc = "done" => LET want == PairOf(ref, block) IN R = want.R /\ Q = want.Q
RowsAligned == pc = "regap" => \A i \in 1..Len(block) : Len(rrows[i]) = Len(qrows[i])
NoStuck == (pc = "regap" /\ k <= Len(ins) /\ ins[k].row # j /\ ins[k].start <= RefEnd(block[j])) =>
              ins[k].start + offs[j] + (IF OwnOffsets THEN InsBefore(block[j].cig, 1, block[j].pos, ins[k].start) ELSE 0) <= Len(rrows[j])
=============================================================================
