INIT Init
NEXT Next
CONSTANTS
  ListLen = 7
  MaxSz = 3
INVARIANT EmitInv
CHECK_DEADLOCK FALSE
