INIT Init
NEXT Next
CONSTANTS
  MaxN = 5
  MaxT = 3
INVARIANT EmitInv
CHECK_DEADLOCK FALSE
