SPECIFICATION Spec
CONSTANTS
  MaxLen = 9
  AsCoded = FALSE
INVARIANT Refines
INVARIANT Invariance
CHECK_DEADLOCK FALSE
