SPECIFICATION Spec
CONSTANTS
  ScanLen = 7
  MaxSz = 2
  PushLen = 5
INVARIANT ScanInv
INVARIANT BalInv
INVARIANT PushInv
CHECK_DEADLOCK FALSE
