-------------------------------- MODULE TopK --------------------------------
(* The bounded catchment of `closest -n K -d D` (closest_n.go findClosestN +   *)
(* rearrangeCatchment) and the single-neighbour scan of plain `closest`         *)
(* (closest.go findClosest), as state machines over abstract targets            *)
(* [d |-> distance, c |-> completeness, i |-> file index], one action per       *)
(* branch of the code; and, independently, the documented total order           *)
(* (distance up, completeness down, file index up; undefined distances last).   *)
(*                                                                              *)
(* AsCoded = TRUE reproduces the code: an undefined distance is an IEEE NaN,    *)
(* every comparison with it is false, sort.SliceStable on <= 12 elements is a   *)
(* stable insertion sort driven by that comparison.  AsCoded = FALSE is the     *)
(* intended rule: undefined sorts after every defined distance and is never     *)
(* within -d.  TLC must find the NaN counterexample with AsCoded = TRUE (model  *)
(* fidelity) and none with FALSE.                                               *)
EXTENDS Integers, Sequences, FiniteSets, SequencesExt, TLC
CONSTANTS MaxT,      \* longest target file
          Dists,     \* abstract distances, e.g. {0,1,2}
          Comps,     \* completeness values
          Ks,        \* catchment sizes explored (0 = plain closest)
          Ds,        \* max-dist settings explored; NoD = none
          AsCoded
U   == 2000000000   \* undefined distance (an IEEE NaN in the code)
NoD == 77
Target == [d : Dists \cup {U}, c : Comps]
VARIABLES targets, K, D, i, catch, furthD, furthC, pc
vars == <<targets, K, D, i, catch, furthD, furthC, pc>>

(* ---- comparisons as the code / as intended --------------------------------- *)
Lt(a, b) == IF AsCoded THEN a # U /\ b # U /\ a < b ELSE (a # U /\ b = U) \/ (a # U /\ b # U /\ a < b)
Eq(a, b) == IF AsCoded THEN a # U /\ b # U /\ a = b ELSE a = b
Gt(a, b) == IF AsCoded THEN a # U /\ b # U /\ a > b ELSE (a = U /\ b # U) \/ (a # U /\ b # U /\ a > b)
LessRec(x, y) == Lt(x.d, y.d) \/ (Eq(x.d, y.d) /\ x.c > y.c)
(* stable insertion sort exactly as sort.SliceStable runs it below 20 elements *)
RECURSIVE Sink(_, _)
Sink(s, j) == IF j > 1 /\ LessRec(s[j], s[j - 1])
              THEN Sink([s EXCEPT ![j] = s[j - 1], ![j - 1] = s[j]], j - 1) ELSE s
RECURSIVE InsSort(_, _)
InsSort(s, k) == IF k > Len(s) THEN s ELSE InsSort(Sink(s, k), k + 1)
Rearrange(c, size) == SubSeq(InsSort(c, 2), 1, size)

(* ---- the machines ------------------------------------------------------------ *)
Init == /\ targets \in UNION {[1..n -> Target] : n \in 1..MaxT}
        /\ K \in Ks /\ D \in Ds
        /\ (K = 0 => D = NoD)
        /\ i = 1 /\ catch = <<>> /\ furthD = 0 /\ furthC = 0 /\ pc = "scan"
Cur == [d |-> targets[i].d, c |-> targets[i].c, i |-> i]
Cap == IF K = 0 /\ D # NoD THEN 1000 ELSE K      \* -d alone: unbounded catchment
TooFar == D # NoD /\ (IF AsCoded THEN Gt(Cur.d, D) ELSE (Cur.d = U \/ Cur.d > D))

(* plain closest *)
KeepFirst == pc = "scan" /\ K = 0 /\ D = NoD /\ i <= Len(targets) /\ catch = <<>>
             /\ catch' = <<Cur>> /\ i' = i + 1 /\ UNCHANGED <<targets, K, D, furthD, furthC, pc>>
Replace == pc = "scan" /\ K = 0 /\ D = NoD /\ i <= Len(targets) /\ catch # <<>>
             /\ Lt(Cur.d, catch[1].d)
             /\ catch' = <<Cur>> /\ i' = i + 1 /\ UNCHANGED <<targets, K, D, furthD, furthC, pc>>
ReplaceTie == pc = "scan" /\ K = 0 /\ D = NoD /\ i <= Len(targets) /\ catch # <<>>
             /\ ~Lt(Cur.d, catch[1].d) /\ Eq(Cur.d, catch[1].d) /\ Cur.c > catch[1].c
             /\ catch' = <<Cur>> /\ i' = i + 1 /\ UNCHANGED <<targets, K, D, furthD, furthC, pc>>
KeepOld == pc = "scan" /\ K = 0 /\ D = NoD /\ i <= Len(targets) /\ catch # <<>>
             /\ ~Lt(Cur.d, catch[1].d) /\ ~(Eq(Cur.d, catch[1].d) /\ Cur.c > catch[1].c)
             /\ i' = i + 1 /\ UNCHANGED <<targets, K, D, catch, furthD, furthC, pc>>
(* closest -n / -d *)
NMode == pc = "scan" /\ ~(K = 0 /\ D = NoD) /\ i <= Len(targets)
Set(c) == /\ catch' = c
          /\ IF Len(c) >= Cap /\ Len(c) > 0 THEN furthD' = c[Len(c)].d /\ furthC' = c[Len(c)].c
                                           ELSE UNCHANGED <<furthD, furthC>>
Skip == NMode /\ TooFar /\ i' = i + 1 /\ UNCHANGED <<targets, K, D, catch, furthD, furthC, pc>>
Admit == /\ NMode /\ ~TooFar /\ Len(catch) < Cap
         /\ LET c == Append(catch, Cur) IN
              IF Len(c) = Cap THEN Set(Rearrange(c, Cap)) ELSE (catch' = c /\ UNCHANGED <<furthD, furthC>>)
         /\ i' = i + 1 /\ UNCHANGED <<targets, K, D, pc>>
AdmitLess == NMode /\ ~TooFar /\ Len(catch) >= Cap /\ Lt(Cur.d, furthD)
         /\ Set(Rearrange(Append(catch, Cur), Cap))
         /\ i' = i + 1 /\ UNCHANGED <<targets, K, D, pc>>
AdmitTie == NMode /\ ~TooFar /\ Len(catch) >= Cap /\ ~Lt(Cur.d, furthD) /\ Eq(Cur.d, furthD) /\ Cur.c > furthC
         /\ Set(Rearrange(Append(catch, Cur), Cap))
         /\ i' = i + 1 /\ UNCHANGED <<targets, K, D, pc>>
Reject == NMode /\ ~TooFar /\ Len(catch) >= Cap /\ ~Lt(Cur.d, furthD) /\ ~(Eq(Cur.d, furthD) /\ Cur.c > furthC)
         /\ i' = i + 1 /\ UNCHANGED <<targets, K, D, catch, furthD, furthC, pc>>
FinalSort == pc = "scan" /\ i > Len(targets)
         /\ (IF ~(K = 0 /\ D = NoD) /\ Len(catch) < Cap /\ Len(catch) > 0
             THEN catch' = Rearrange(catch, Len(catch)) ELSE catch' = catch)
         /\ pc' = "done" /\ UNCHANGED <<targets, K, D, i, furthD, furthC>>
Next == KeepFirst \/ Replace \/ ReplaceTie \/ KeepOld \/ Skip \/ Admit \/ AdmitLess \/ AdmitTie \/ Reject \/ FinalSort
Spec == Init /\ [][Next]_vars

(* ---- the documented order, declaratively -------------------------------------- *)
Recs(ts) == {[d |-> ts[k].d, c |-> ts[k].c, i |-> k] : k \in 1..Len(ts)}
Before(x, y) == \/ x.d < y.d
                \/ x.d = y.d /\ x.c > y.c
                \/ x.d = y.d /\ x.c = y.c /\ x.i < y.i
Rank(x, S) == Cardinality({y \in S : Before(y, x)})
Eligible(ts, dmax) == {x \in Recs(ts) : x.d # U /\ (dmax = NoD \/ x.d <= dmax)}
TopKOf(ts, k, dmax) ==                         \* sequence of the first k eligible targets in the documented order
  LET E == Eligible(ts, dmax)
      n == IF k = 0 /\ dmax # NoD THEN Cardinality(E) ELSE IF k = 0 THEN 1 ELSE k
      m == IF Cardinality(E) < n THEN Cardinality(E) ELSE n
  IN [r \in 1..m |-> CHOOSE x \in E : Rank(x, E) = r - 1]
DefinedPart(c) == SelectSeq(c, LAMBDA x : x.d # U)
UndefLast(c) == \A a, b \in 1..Len(c) : (c[a].d = U /\ c[b].d # U) => a > b

(* ---- properties ------------------------------------------------------------------- *)
Refines == pc = "done" =>
   /\ DefinedPart(catch) = TopKOf(targets, K, D)
   /\ UndefLast(catch)
TypeOK == /\ Len(catch) <= Len(targets) /\ i \in 1..(MaxT + 1)
          /\ \A a, b \in 1..Len(catch) : a # b => catch[a].i # catch[b].i
CapInv == Len(catch) <= (IF K = 0 /\ D = NoD THEN 1 ELSE Cap)
=============================================================================
