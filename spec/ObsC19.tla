------------------------------- MODULE ObsC19 -------------------------------
(* Code -> spec for C19: a run in which the k-th write to the destination     *)
(* failed must end in an error (in-process: the entry point returns one; the  *)
(* binary: non-zero exit).                                                    *)
EXTENDS ObsBase
VARIABLES l, nbad
FailedPipe(o) ==
  LET v == o.vec  b == o.obs IN
  IF b.wfailed = 0 THEN {}                      \* the fault was not reached (fewer writes than k): nothing to judge
  ELSE IF b.iserr THEN {} ELSE {"failed-write-reported-as-success"}
FailedCli(o) ==
  LET r == o.obs.runs IN
    (IF \A k \in 1..Len(r) : ~r[k].timeout THEN {} ELSE {"hang-after-failed-write"})
    \cup (IF \A k \in 1..Len(r) : r[k].exit # 0 THEN {} ELSE {"failed-write-reported-as-success"})
Failed(o) ==
  IF o.obs.panic THEN {"panic"} ELSE IF o.obs.timeout THEN {"hang-after-failed-write"} ELSE
  IF o.vec.fam = "pipe" THEN FailedPipe(o) ELSE FailedCli(o)
Init == l = 1 /\ nbad = 0
Next == /\ l <= Len(Trace)
        /\ LET o == Trace[l]  bad == Failed(o) IN
             /\ \A cl \in bad : Emit(FailFile, [line |-> l, id |-> o.id, clause |-> cl, signature |-> o.vec.sig])
             /\ nbad' = nbad + Cardinality(bad)
        /\ l' = l + 1
Post == TLCGet("stats").diameter = Len(Trace) + 1
=============================================================================
