INIT Init
NEXT Next
POSTCONDITION Post
CHECK_DEADLOCK FALSE
