------------------------------- MODULE ObsC17 -------------------------------
(* Code -> spec for C17: every line of the table dump of the running code is *)
(* judged against the Alphabet theory.                                       *)
EXTENDS Alphabet, ObsBase
VARIABLES l, nbad

Seq1(s) == [i \in 1..Len(s) |-> s[i]]

Failed(o) ==
  CASE o.kind = "codon" ->
         LET c == o.c  t == Translate(c) IN
           (IF (t = "X" /\ o.dict = "") \/ (t # "X" /\ o.dict = t) THEN {} ELSE {"codon-dict"})
           \cup (IF o.lax = t THEN {} ELSE {"translate-lax"})
           \cup (IF (t = "X" /\ o.strict = "ERR") \/ (t # "X" /\ o.strict = t) THEN {} ELSE {"translate-strict"})
    [] o.kind = "transseq" ->
         IF o.lax = TranslateSeq(o.s) THEN {} ELSE {"translate-seq"}
    [] o.kind = "transmod3" ->
         IF o.err = (o.n % 3 # 0) THEN {} ELSE {"translate-mod3"}
    [] o.kind = "char" ->
         LET c == o.c  u == Upper(c) IN
           (IF o.comp = CompChar(c) THEN {} ELSE {"comp-text"})
           \cup (IF o.enc = Enc(u, FALSE) THEN {} ELSE {"enc"})
           \cup (IF o.enchard = Enc(u, TRUE) THEN {} ELSE {"enc-hard"})
           \cup (IF o.dec = u /\ o.dechard = u THEN {} ELSE {"dec"})
           \cup (IF o.enccomp = Enc(Comp(u), FALSE) THEN {} ELSE {"comp-encoded"})
           \cup (IF o.score = Score(u) /\ o.encscore = Score(u) THEN {} ELSE {"score"})
    [] o.kind = "others" ->
           (IF Len(o.nzenc) = 0 /\ Len(o.nzhard) = 0 THEN {} ELSE {"enc-accepts-other-byte"})
    [] o.kind = "decode" ->
           (IF o.code \in Codes /\ Dec(o.code) = o.sym THEN {} ELSE {"dec-table"})
    [] o.kind = "seq" ->
           (IF o.comp = CompSeq(o.s) /\ o.frcomp = CompSeq(o.s) THEN {} ELSE {"comp-seq"})
           \cup (IF o.revcomp = RevComp(o.s) /\ o.frrevcomp = RevComp(o.s) THEN {} ELSE {"revcomp-seq"})
           \cup (IF o.ecomp = [i \in 1..Len(o.s) |-> Upper(CompChar(o.s[i]))] THEN {} ELSE {"comp-encoded-seq"})
           \cup (IF o.erevcomp = Rev([i \in 1..Len(o.s) |-> Upper(CompChar(o.s[i]))]) THEN {} ELSE {"revcomp-encoded-seq"})
           \cup (IF o.encdec = [i \in 1..Len(o.s) |-> Upper(o.s[i])] THEN {} ELSE {"encode-decode"})
           \cup (IF o.rcrc = o.s THEN {} ELSE {"revcomp-involution"})
    [] OTHER -> {"unknown-kind"}

Nontrivial(o) == o.kind \in {"codon", "char", "seq", "transseq"}

Init == l = 1 /\ nbad = 0
Next == /\ l <= Len(Trace)
        /\ LET o == Trace[l]  bad == Failed(o) IN
             /\ \A cl \in bad : Emit(FailFile, [line |-> l, id |-> o.id, clause |-> cl, signature |-> o.id])
             /\ nbad' = nbad + Cardinality(bad)
        /\ l' = l + 1
Post == TLCGet("stats").diameter = Len(Trace) + 1
=============================================================================
