------------------------------- MODULE ObsC06 -------------------------------
(* Code -> spec for C06: the rows `closest` printed are judged against the     *)
(* documented total order (TopK!TopKOf), with distance and completeness         *)
(* recomputed from the sequences by the Distance module.                        *)
EXTENDS Distance, ObsBase
VARIABLES l, nbad
T == INSTANCE TopK WITH MaxT <- 0, Dists <- {}, Comps <- {}, Ks <- {}, Ds <- {}, AsCoded <- FALSE,
                        targets <- <<>>, K <- 0, D <- 0, i <- 0, catch <- <<>>, furthD <- 0, furthC <- 0, pc <- ""
U == T!U
NoD == T!NoD

(* order-preserving integer key of the distance between q and t under measure m *)
Key(m, q, t) ==
  CASE m = "snp" -> SnpDist(q, t)
    [] m = "raw" -> IF RawDen(q, t) = 0 THEN U ELSE Dec9(RawNum(q, t), RawDen(q, t))
    [] m = "tn93" -> IF TnL(q, t) = 0 THEN U ELSE SnpDist(q, t)   \* vectors flagged mono: tn93 increases with the count
DKey(m, d) == IF d < 0 THEN NoD ELSE IF m = "snp" THEN d ELSE d * 1000000
Abstract(v, q) == TLCEval([k \in 1..Len(v.targets) |-> [d |-> Key(v.measure, q, v.targets[k]), c |-> Completeness(v.targets[k])]])

(* the observed target indices for query number qi, in output order *)
ObservedFor(o, qi) ==
  LET r == o.obs.rows IN
  IF o.vec.n = 0 /\ o.vec.d < 0 THEN <<r[qi].ti>>
  ELSE IF o.vec.table THEN LET s == SelectSeq(r, LAMBDA x : x.qi = qi) IN [k \in 1..Len(s) |-> s[k].ti]
  ELSE r[qi].tis

QueryOK(o, qi) ==
  LET v == o.vec
      ts == Abstract(v, v.queries[qi])
      want == T!TopKOf(ts, v.n, DKey(v.measure, v.d))
      got == ObservedFor(o, qi)
      inrange == \A k \in 1..Len(got) : got[k] \in 1..Len(ts)
      gotdef == SelectSeq(got, LAMBDA k : ts[k].d # U)
  IN /\ inrange
     /\ \A a, b \in 1..Len(got) : a # b => got[a] # got[b]
     /\ gotdef = [k \in 1..Len(want) |-> want[k].i]
     /\ \A a, b \in 1..Len(got) : (ts[got[a]].d = U /\ ts[got[b]].d # U) => a > b
     /\ (v.d >= 0 => \A a \in 1..Len(got) : ts[got[a]].d # U)      \* "within distance D": an undefined distance is not

Plain(v) == v.n = 0 /\ v.d < 0
(* plain closest: the printed distance and SNP list are those of the returned pair *)
PairOK(o, qi) ==
  LET v == o.vec  r == o.obs.rows[qi]  q == v.queries[qi]  t == v.targets[r.ti]
      cols == SelectSeq(Ix(Len(q)), LAMBDA j : Differ(q[j], t[j]))
  IN /\ r.snps = [k \in 1..Len(cols) |-> <<cols[k], Upper(q[cols[k]]), Upper(t[cols[k]])>>]
     /\ (v.measure = "snp" => r.dist = SnpDist(q, t))
     /\ (v.measure = "raw" => IF RawDen(q, t) = 0 THEN (r.nan \/ r.dist = -1) ELSE r.dist = Dec9(RawNum(q, t), RawDen(q, t)))
TableDistOK(o) ==
  \A k \in 1..Len(o.obs.rows) :
     LET r == o.obs.rows[k]  v == o.vec IN
       (r.qi \in 1..Len(v.queries) /\ r.ti \in 1..Len(v.targets)) =>
          LET q == v.queries[r.qi]  t == v.targets[r.ti] IN
            /\ (v.measure = "snp" => r.dist = SnpDist(q, t))
            /\ (v.measure = "raw" => IF RawDen(q, t) = 0 THEN (r.nan \/ r.dist = -1) ELSE r.dist = Dec9(RawNum(q, t), RawDen(q, t)))

RowsShapeOK(o) ==
  LET v == o.vec  r == o.obs.rows IN
  /\ \A k \in 1..Len(r) : ~Has(r[k], "bad")
  /\ IF Plain(v) \/ ~v.table THEN Len(r) = Len(v.queries) /\ \A k \in 1..Len(r) : r[k].qi = k
     ELSE /\ \A k \in 1..Len(r) : r[k].qi \in 1..Len(v.queries)
          /\ \A k \in 1..(Len(r) - 1) : r[k].qi <= r[k + 1].qi         \* rows grouped in query order

ExpectHeader(v) == IF Plain(v) THEN "query,closest,distance,SNPs" ELSE IF v.table THEN "query,target,distance" ELSE "query,closest"

Failed(o) ==
  IF o.obs.panic THEN {"panic"} ELSE IF o.obs.timeout THEN {"timeout"} ELSE
  LET v == o.vec IN
  IF o.obs.err # "" THEN {"unexpected-error"} ELSE
  IF CliBad(o.obs) THEN {"cli-wiring"} ELSE
  IF o.obs.header # ExpectHeader(v) THEN {"header"} ELSE
  IF ~RowsShapeOK(o) THEN {"rows-in-query-order"} ELSE
    (IF \A qi \in 1..Len(v.queries) : QueryOK(o, qi) THEN {} ELSE {"nearest-under-order"})
    \cup (IF Plain(v) /\ ~(\A qi \in 1..Len(v.queries) : o.obs.rows[qi].ti \in 1..Len(v.targets) => PairOK(o, qi)) THEN {"pair-snps-distance"} ELSE {})
    \cup (IF ~Plain(v) /\ v.table /\ ~TableDistOK(o) THEN {"table-distance"} ELSE {})

(* which defect class a failing vector belongs to: does an undefined-distance target occur, and first? *)
Sig(o, cl) ==
  IF cl # "nearest-under-order" THEN cl ELSE
  LET v == o.vec
      undef == {k \in 1..Len(v.targets) : \E qi \in 1..Len(v.queries) : Key(v.measure, v.queries[qi], v.targets[k]) = U}
  IN IF undef = {} THEN "order:all-distances-defined" ELSE "order:undefined-distance-target-present"

Init == l = 1 /\ nbad = 0
Next == /\ l <= Len(Trace)
        /\ LET o == Trace[l]  bad == Failed(o) IN
             /\ \A cl \in bad : Emit(FailFile, [line |-> l, id |-> o.id, clause |-> cl, signature |-> Sig(o, cl)])
             /\ nbad' = nbad + Cardinality(bad)
        /\ l' = l + 1
Post == TLCGet("stats").diameter = Len(Trace) + 1
=============================================================================
