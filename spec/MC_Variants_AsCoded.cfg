SPECIFICATION Spec
CONSTANTS
  MaxLen = 5
  AsCoded = TRUE
INVARIANT Refines
INVARIANT Invariance
CHECK_DEADLOCK FALSE
