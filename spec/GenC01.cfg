INIT Init
NEXT Next
CONSTANTS
  MaxOps = 3
  L = 6
INVARIANT EmitInv
CHECK_DEADLOCK FALSE
