------------------------------ MODULE GenUpDown ------------------------------
(* Spec -> code for C08 / C09 / C10.                                            *)
(*  list   every row over {same, snp, ambiguous} of length <= ListLen against   *)
(*         an A/C/G/T reference, and every (reference symbol, symbol) pair      *)
(*  size   every requested size vector x supply vector in (0..MaxSz)^4 x        *)
(*         --no-fill, and every --size-total, the supply realised by copies of  *)
(*         target shapes of known bin / distance / ambiguity                    *)
(*  dist   --dist-all / per-bin limits and --dist-push k on a full house        *)
(*  thr    --threshold-pair, --threshold-target, --ignore                       *)
EXTENDS Alphabet, GenBase, SequencesExt
CONSTANTS ListLen, MaxSz
SymSeq == <<"A","C","G","T","R","Y","S","W","K","M","B","D","H","V","N","-","?">>
Ref == <<"A","C","G","T","A","C","G","T","A","C">>
Nx(b) == CASE b = "A" -> "C" [] b = "C" -> "G" [] b = "G" -> "T" [] b = "T" -> "A"
With(s, ps, f(_)) == [i \in 1..Len(s) |-> IF i \in ps THEN f(s[i]) ELSE s[i]]
Mut(s, ps) == With(s, ps, Nx)
AmbAt(s, ps) == With(s, ps, LAMBDA b : "N")
Q1 == Mut(Ref, {2, 4})
Q2 == Mut(Ref, {6})
(* target shapes relative to Q1, by bin, with different distances / ambiguity counts *)
Shape(bin, k) ==
  CASE bin = 1 -> (CASE k % 3 = 0 -> Q1 [] k % 3 = 1 -> AmbAt(Q1, {9}) [] OTHER -> AmbAt(Q1, {9, 10}))                      \* same
    [] bin = 2 -> (CASE k % 3 = 0 -> Ref [] k % 3 = 1 -> Mut(Ref, {2}) [] OTHER -> AmbAt(Mut(Ref, {2}), {10}))              \* up: d 2, 1, 1
    [] bin = 3 -> (CASE k % 3 = 0 -> Mut(Q1, {6, 8}) [] k % 3 = 1 -> Mut(Q1, {6}) [] OTHER -> AmbAt(Mut(Q1, {8}), {10}))     \* down: d 2, 1, 1
    [] bin = 4 -> (CASE k % 3 = 0 -> Mut(Ref, {2, 6}) [] k % 3 = 1 -> Mut(Ref, {6}) [] OTHER -> Mut(Ref, {2, 6, 8}))        \* side: d 2, 3, 3
(* supply vector -> target file, the bins interleaved so that file order matters *)
RECURSIVE Deal(_, _, _)
Deal(sup, round, bin) ==
  IF round > MaxSz + 1 THEN <<>>
  ELSE (IF sup[bin] >= round THEN <<Shape(bin, round)>> ELSE <<>>)
       \o (IF bin = 4 THEN Deal(sup, round + 1, 1) ELSE Deal(sup, round, bin + 1))
Targets(sup) == LET t == Deal(sup, 1, 1) IN IF t = <<>> THEN <<Mut(Ref, {1, 3, 5, 7, 9})>> ELSE t \o <<AmbAt(Ref, {1, 2, 3, 4, 5})>>
Opts == [sizetotal |-> 0, sizeup |-> 0, sizedown |-> 0, sizeside |-> 0, sizesame |-> 0, distall |-> 0, distup |-> 0, distdown |-> 0, distside |-> 0,
         push |-> 0, nofill |-> FALSE, thrnum |-> 1, thrden |-> 2, thrtarget |-> 4, ignore |-> <<>>, table |-> FALSE]
V4 == [1..4 -> 0..MaxSz]
Str4(f) == ToString(f[1]) \o ToString(f[2]) \o ToString(f[3]) \o ToString(f[4])
Vec(id, qs, ts, o, combos) == [id |-> id, ref |-> Ref, queries |-> qs, targets |-> ts, opts |-> o, combos |-> combos]

SizeVecs == {Vec("size-" \o Str4(id) \o "-" \o Str4(sup) \o "-" \o B2S(nf), IF (id[1] + sup[2]) % 3 = 0 THEN <<Q1, Q2>> ELSE <<Q1>>, Targets(sup),
                 [Opts EXCEPT !.sizesame = id[1], !.sizeup = id[2], !.sizedown = id[3], !.sizeside = id[4], !.nofill = nf, !.table = (sup[1] = 1)],
                 (id[2] + sup[3]) % 4 = 0)
             : id \in V4 \ {[i \in 1..4 |-> 0]}, sup \in V4, nf \in BOOLEAN}
TotalVecs == {Vec("total-" \o ToString(S) \o "-" \o Str4(sup) \o "-" \o B2S(nf), <<Q1>>, Targets(sup),
                  [Opts EXCEPT !.sizetotal = S, !.nofill = nf], S % 3 = 0)
              : S \in 1..(4 * MaxSz), sup \in V4, nf \in BOOLEAN}
Full == Targets([i \in 1..4 |-> 3])
DistVecs == {Vec("dist-" \o ToString(a) \o ToString(u) \o ToString(d) \o ToString(s) \o "-" \o ToString(p) \o B2S(tb), <<Q1, Q2, Ref>>, Full,
                 [Opts EXCEPT !.distall = a, !.distup = u, !.distdown = d, !.distside = s, !.push = p, !.table = tb], TRUE)
             : a \in 0..2, u \in {0, 2}, d \in {0, 1}, s \in {0, 3}, p \in 0..3, tb \in BOOLEAN}
DistOK(v) == LET o == v.opts IN
   /\ (o.push > 0 => o.distall = 0 /\ o.distup = 0 /\ o.distdown = 0 /\ o.distside = 0)
   /\ (o.push = 0 => (o.distall > 0 /\ o.distup = 0 /\ o.distdown = 0 /\ o.distside = 0) \/ (o.distall = 0 /\ o.distup > 0 /\ o.distdown > 0 /\ o.distside > 0))
ThrVecs == {Vec("thr-" \o ToString(n) \o "-" \o ToString(tt) \o "-" \o ToString(ig), <<Q1, AmbAt(Q1, {6})>>,
                Full \o <<AmbAt(Mut(Q1, {6}), {2}), AmbAt(Ref, {2, 4}), AmbAt(Mut(Ref, {6}), {4})>>,
                [Opts EXCEPT !.sizetotal = 40, !.thrnum = n, !.thrden = 4, !.thrtarget = tt, !.ignore = IF ig = 0 THEN <<>> ELSE IF ig = 1 THEN <<2>> ELSE <<1, 5, 14>>], TRUE)
            : n \in 0..4, tt \in {0, 1, 2, 5}, ig \in 0..2}
(* list vectors: no topranking options *)
Cells == {"s", "x", "n"}
RowOf(c) == [i \in 1..Len(c) |-> IF c[i] = "s" THEN Ref[i] ELSE IF c[i] = "x" THEN Nx(Ref[i]) ELSE (IF i % 3 = 0 THEN "N" ELSE IF i % 3 = 1 THEN "-" ELSE "R")]
ListVecs == {[id |-> "list-" \o ToString(n), ref |-> SubSeq(Ref, 1, n), queries |-> <<SubSeq(Ref, 1, n)>>,
              targets |-> SetToSeq({RowOf(c) : c \in [1..n -> Cells]})] : n \in 1..ListLen}
PairVecs == {[id |-> "pair-" \o r, ref |-> <<r>>, queries |-> <<<<r>>>>, targets |-> [k \in 1..17 |-> <<SymSeq[k]>>]] : r \in Sym}
VARIABLE v
Init == v \in SizeVecs \cup TotalVecs \cup {x \in DistVecs : DistOK(x)} \cup ThrVecs \cup ListVecs \cup PairVecs
Next == UNCHANGED v
EmitInv == EmitVec(v)
=============================================================================
