SPECIFICATION Spec
CONSTANTS
  MaxN = 3
  MaxT = 2
  Variant = "intended"
INVARIANT OrderInv
INVARIANT DoneOK
INVARIANT NoLostRecord
INVARIANT NoSendOnClosed
INVARIANT ErrSafety
PROPERTY Termination
PROPERTY ErrReported
CHECK_DEADLOCK FALSE
