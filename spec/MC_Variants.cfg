SPECIFICATION Spec
CONSTANTS
  MaxLen = 7
  AsCoded = FALSE
INVARIANT Refines
INVARIANT Invariance
CHECK_DEADLOCK FALSE
