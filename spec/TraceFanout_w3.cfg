INIT Init
NEXT Next
CONSTANTS
  Q = 3
  NT = 3
  Cap = 3
  WPR = 3
CONSTRAINT Mark
INVARIANT DoneOK
INVARIANT EveryTargetToEveryQuery
INVARIANT ErrSafety
POSTCONDITION Post
CHECK_DEADLOCK FALSE
