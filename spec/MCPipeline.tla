----------------------------- MODULE MCPipeline -----------------------------
(* Model-checking instances of Pipeline: one configuration per command        *)
(* topology (DESIGN.md Appendix C) x every single fault.                       *)
EXTENDS Integers, Sequences, FiniteSets, TLC
CONSTANTS MaxN, MaxT, Variant      \* Variant: "intended" | "hdr-as-coded" | "order-as-coded"
VARIABLES cfg, rd, nxt, chIn, closedIn, w1, w2, chMid, closedMid, chOut, closedOut, wr, written, main, faulted

Topo(name, n, t) ==
  CASE name = "toMultiAlign" -> [name |-> name, N |-> n, T |-> t, Stages |-> 1, CapIn |-> t, CapOut |-> 0, Reorder |-> TRUE,
                                 Header |-> TRUE, HdrSel |-> (Variant # "hdr-as-coded"), HdrWrites |-> 0, WritesPer |-> 2, Skip |-> {}]
    [] name = "toPairAlign"  -> [name |-> name, N |-> n, T |-> t, Stages |-> 2, CapIn |-> t, CapOut |-> 0, Reorder |-> (Variant # "order-as-coded"),
                                 Header |-> TRUE, HdrSel |-> (Variant # "hdr-as-coded"), HdrWrites |-> 0, WritesPer |-> 2, Skip |-> {}]
    [] name = "samVariants"  -> [name |-> name, N |-> n, T |-> t, Stages |-> 2, CapIn |-> t, CapOut |-> 0, Reorder |-> TRUE,
                                 Header |-> TRUE, HdrSel |-> (Variant # "hdr-as-coded"), HdrWrites |-> 1, WritesPer |-> 2, Skip |-> {}]
    [] name = "variants"     -> [name |-> name, N |-> n, T |-> t, Stages |-> 1, CapIn |-> n, CapOut |-> n, Reorder |-> TRUE,
                                 Header |-> FALSE, HdrSel |-> TRUE, HdrWrites |-> 1, WritesPer |-> 2, Skip |-> {}]
    [] name = "variantsRef"  -> [name |-> name, N |-> n, T |-> t, Stages |-> 1, CapIn |-> n, CapOut |-> n, Reorder |-> TRUE,    \* the reference is record 1 of the alignment
                                 Header |-> FALSE, HdrSel |-> TRUE, HdrWrites |-> 1, WritesPer |-> 2, Skip |-> IF n > 1 THEN {1} ELSE {}]
    [] name = "snps"         -> [name |-> name, N |-> n, T |-> t, Stages |-> 1, CapIn |-> 0, CapOut |-> n, Reorder |-> TRUE,
                                 Header |-> FALSE, HdrSel |-> TRUE, HdrWrites |-> 1, WritesPer |-> 1, Skip |-> {}]
    [] name = "updownList"   -> [name |-> name, N |-> n, T |-> t, Stages |-> 1, CapIn |-> n, CapOut |-> n, Reorder |-> TRUE,
                                 Header |-> FALSE, HdrSel |-> TRUE, HdrWrites |-> 1, WritesPer |-> 1, Skip |-> {}]
Names == {"toMultiAlign", "toPairAlign", "samVariants", "variants", "variantsRef", "snps", "updownList"}
Faults(c) == {[kind |-> "none", at |-> 0]}
             \cup {[kind |-> "rd", at |-> k] : k \in 0..(c.N - 1)}
             \cup {[kind |-> "wk1", at |-> k] : k \in 0..(c.N - 1)}
             \cup (IF c.Stages = 2 THEN {[kind |-> "wk2", at |-> k] : k \in 0..(c.N - 1)} ELSE {})
             \cup {[kind |-> "wr", at |-> k] : k \in 1..(c.HdrWrites + (c.N - Cardinality(c.Skip)) * c.WritesPer)}
             \cup (IF c.Header THEN {[kind |-> "rdhdr", at |-> 0]} ELSE {})
WithFault(c, f) == [x \in (DOMAIN c) \cup {"fault"} |-> IF x = "fault" THEN f ELSE c[x]]
Configs == UNION { {WithFault(Topo(nm, n, t), f) : f \in Faults(Topo(nm, n, t))} : nm \in Names, n \in {0, MaxN}, t \in {1, MaxT} }

INSTANCE Pipeline
=============================================================================
