----------------------------- MODULE BalanceInd -----------------------------
(***************************************************************************)
(* balance() of updown topranking (pkg/updown/topranking.go) as the loop    *)
(* the code runs, over UNBOUNDED sizes: an inductive invariant checked by   *)
(* Apalache (Init => IndInv at length 0, IndInv /\ Next => IndInv' at       *)
(* length 1), of which the relational EvenFill of UpDown.tla is a           *)
(* consequence at pc = "done".  TLC checks the same Balance for every       *)
(* requested / supplied vector in (0..3)^4 (MC_UpDown); this removes the    *)
(* bound.  `round` is a ghost variable: the number of completed sweeps over *)
(* the four bins.                                                           *)
(*   IndInv says: bin j has received min(round + [j < i], spare0[j]) extra   *)
(*   members - the closed form of "one more per sweep while it has spare".   *)
(***************************************************************************)
EXTENDS Integers
VARIABLES
  \* @type: Int -> Int;
  ideal,
  \* @type: Int -> Int;
  obs,
  \* @type: Int;
  total,
  \* @type: Int -> Int;
  size,
  \* @type: Int -> Int;
  avail,
  \* @type: Int;
  i,
  \* @type: Int;
  round,
  \* @type: Str;
  pc
B == 1..4
\* @type: (Int -> Int) => Int;
Sum4(f) == f[1] + f[2] + f[3] + f[4]
Min2(a, b) == IF a < b THEN a ELSE b
Base(j) == Min2(ideal[j], obs[j])
Spare0(j) == IF obs[j] > ideal[j] THEN obs[j] - ideal[j] ELSE 0
Extra(j) == size[j] - Base(j)

(* the caller's guarantees: sizes are naturals, total is the sum of the requested sizes, some bin is short *)
Pre == /\ \A j \in B : ideal[j] >= 0 /\ obs[j] >= 0
       /\ total = Sum4(ideal)
       /\ \E j \in B : obs[j] < ideal[j]
Init == /\ ideal \in [B -> Int] /\ obs \in [B -> Int] /\ total \in Int /\ Pre
        /\ size = [j \in B |-> Base(j)]
        /\ avail = [j \in B |-> Spare0(j)]
        /\ i = 1 /\ round = 0 /\ pc = "loop"
Step == /\ pc = "loop"
        /\ IF Sum4(avail) = 0
           THEN pc' = "done" /\ UNCHANGED <<size, avail, i, round>>
           ELSE LET can == obs[i] > ideal[i] /\ avail[i] > 0
                    s2 == IF can THEN [size EXCEPT ![i] = @ + 1] ELSE size
                    a2 == IF can THEN [avail EXCEPT ![i] = @ - 1] ELSE avail
                IN /\ size' = s2 /\ avail' = a2
                   /\ pc' = IF Sum4(s2) = total THEN "done" ELSE "loop"
                   /\ i' = IF i = 4 THEN 1 ELSE i + 1
                   /\ round' = IF i = 4 THEN round + 1 ELSE round
        /\ UNCHANGED <<ideal, obs, total>>
Next == Step \/ (pc = "done" /\ UNCHANGED <<ideal, obs, total, size, avail, i, round, pc>>)

(* ---- what "evenly" means (UpDown.tla EvenFill, nofill = FALSE) ------------------------------ *)
EvenFill == /\ \A j \in B : Base(j) <= size[j] /\ size[j] <= obs[j]
            /\ Sum4(size) = Min2(total, Sum4(obs))
            /\ \A j, k \in B : Extra(j) > Extra(k) + 1 => Extra(k) = Spare0(k)
Post == pc = "done" => (EvenFill /\ Sum4(size) <= total)

(* ---- the inductive invariant ------------------------------------------------------------------ *)
Given(j) == Min2(IF j < i THEN round + 1 ELSE round, Spare0(j))       \* extra members bin j has received so far
IndInv == /\ Pre /\ pc \in {"loop", "done"} /\ i \in B /\ round >= 0
          /\ ideal \in [B -> Int] /\ obs \in [B -> Int] /\ size \in [B -> Int] /\ avail \in [B -> Int]
          /\ \A j \in B : avail[j] = Spare0(j) - Extra(j) /\ avail[j] >= 0
          /\ pc = "loop" => (\A j \in B : Extra(j) = Given(j)) /\ Sum4(size) < total
          /\ Post
IndInit == /\ ideal \in [B -> Int] /\ obs \in [B -> Int] /\ total \in Int /\ size \in [B -> Int] /\ avail \in [B -> Int]
           /\ i \in B /\ round \in Int /\ pc \in {"loop", "done"}
           /\ IndInv
=============================================================================
