INIT Init
NEXT Next
CONSTANTS
  MaxN = 4
  MaxT = 3
INVARIANT EmitInv
CHECK_DEADLOCK FALSE
