------------------------------ MODULE Alphabet ------------------------------
(***************************************************************************)
(* Constant-level theory of gofasta's nucleotide alphabet: IUPAC base sets, *)
(* the bit-level coding scheme (E. Paradis), complement, the standard       *)
(* genetic code, translation of ambiguity codons.  Everything here is       *)
(* written from the property statements (C03, C07, C10, C17) and from the    *)
(* public description of the coding scheme, not from the Go tables; the Go   *)
(* tables are dumped by the harness and compared against this module by TLC. *)
(* Nucleotides are one-character strings.                                   *)
(***************************************************************************)
EXTENDS Integers, Sequences, FiniteSets, TLC, Bitwise

Base   == {"A", "C", "G", "T"}
Iupac  == {"A","C","G","T","R","Y","S","W","K","M","B","D","H","V","N"}
Sym    == Iupac \cup {"-", "?"}           \* the 17 accepted symbols (upper case)
Lower  == {"a","c","g","t","r","y","s","w","k","m","b","d","h","v","n"}
Chars  == Sym \cup Lower                  \* the 32 accepted characters

Upper(c) ==
  CASE c = "a" -> "A" [] c = "c" -> "C" [] c = "g" -> "G" [] c = "t" -> "T"
    [] c = "r" -> "R" [] c = "y" -> "Y" [] c = "s" -> "S" [] c = "w" -> "W"
    [] c = "k" -> "K" [] c = "m" -> "M" [] c = "b" -> "B" [] c = "d" -> "D"
    [] c = "h" -> "H" [] c = "v" -> "V" [] c = "n" -> "N" [] OTHER -> c
LowerOf(c) ==
  CASE c = "A" -> "a" [] c = "C" -> "c" [] c = "G" -> "g" [] c = "T" -> "t"
    [] c = "R" -> "r" [] c = "Y" -> "y" [] c = "S" -> "s" [] c = "W" -> "w"
    [] c = "K" -> "k" [] c = "M" -> "m" [] c = "B" -> "b" [] c = "D" -> "d"
    [] c = "H" -> "h" [] c = "V" -> "v" [] c = "N" -> "n" [] OTHER -> c
IsLower(c) == c \in Lower

(* The set of bases a symbol denotes (IUPAC); N, ? and the soft gap denote   *)
(* any base.                                                                *)
Bases(s) ==
  CASE s = "A" -> {"A"} [] s = "C" -> {"C"} [] s = "G" -> {"G"} [] s = "T" -> {"T"}
    [] s = "R" -> {"A","G"} [] s = "Y" -> {"C","T"} [] s = "S" -> {"C","G"}
    [] s = "W" -> {"A","T"} [] s = "K" -> {"G","T"} [] s = "M" -> {"A","C"}
    [] s = "B" -> {"C","G","T"} [] s = "D" -> {"A","G","T"}
    [] s = "H" -> {"A","C","T"} [] s = "V" -> {"A","C","G"}
    [] s = "N" -> Base [] s = "-" -> Base [] s = "?" -> Base
BasesH(s, hard) == IF hard /\ s = "-" THEN {} ELSE Bases(s)
Disjoint(a, b, hard) == BasesH(a, hard) \cap BasesH(b, hard) = {}
IsACGT(s) == s \in Base

SymOfSet(S) == CHOOSE s \in Iupac : Bases(s) = S      \* the IUPAC code of a non-empty base set

(* ---- the bit-level coding scheme -------------------------------------- *)
(* bit 128 = A, 64 = G, 32 = C, 16 = T; bit 8 = "base is known";            *)
(* bit 4 = alignment gap, bit 2 = completely unknown ('?').                 *)
BaseBit(b) == CASE b = "A" -> 128 [] b = "G" -> 64 [] b = "C" -> 32 [] b = "T" -> 16
SumBits(S) == (IF "A" \in S THEN 128 ELSE 0) + (IF "G" \in S THEN 64 ELSE 0)
            + (IF "C" \in S THEN 32 ELSE 0) + (IF "T" \in S THEN 16 ELSE 0)
Enc(s, hard) ==
  IF s = "-" THEN (IF hard THEN 4 ELSE 244)
  ELSE IF s = "?" THEN 242
  ELSE SumBits(Bases(s)) + (IF Cardinality(Bases(s)) = 1 THEN 8 ELSE 0)
Dec(n) == IF n = 4 \/ n = 244 THEN "-" ELSE IF n = 242 THEN "?"
          ELSE CHOOSE s \in Iupac : Enc(s, FALSE) = n
Codes == {Enc(s, FALSE) : s \in Sym} \cup {4}

(* completeness score of a symbol: 12 / number of bases it may be           *)
Score(s) == IF s \in {"-", "?"} THEN 3 ELSE 12 \div Cardinality(Bases(s))

(* ---- complement --------------------------------------------------------- *)
CompBase(b) == CASE b = "A" -> "T" [] b = "T" -> "A" [] b = "C" -> "G" [] b = "G" -> "C"
Comp(s) == IF s \in {"-", "?"} THEN s ELSE SymOfSet({CompBase(b) : b \in Bases(s)})
CompChar(c) == IF IsLower(c) THEN LowerOf(Comp(Upper(c))) ELSE Comp(c)
CompSeq(q) == [i \in 1..Len(q) |-> CompChar(q[i])]
Rev(q) == [i \in 1..Len(q) |-> q[Len(q) + 1 - i]]
RevComp(q) == Rev(CompSeq(q))

(* ---- the standard genetic code, in the canonical TCAG order --------------- *)
TCAG == <<"T", "C", "A", "G">>
AAs == << "F","F","L","L","S","S","S","S","Y","Y","*","*","C","C","*","W",
          "L","L","L","L","P","P","P","P","H","H","Q","Q","R","R","R","R",
          "I","I","I","M","T","T","T","T","N","N","K","K","S","S","R","R",
          "V","V","V","V","A","A","A","A","D","D","E","E","G","G","G","G" >>
Idx(b) == CASE b = "T" -> 0 [] b = "C" -> 1 [] b = "A" -> 2 [] b = "G" -> 3
StdCode(c) == AAs[16 * Idx(c[1]) + 4 * Idx(c[2]) + Idx(c[3]) + 1]    \* c: <<b1,b2,b3>> over Base
Codons64 == {<<a, b, c>> : a \in Base, b \in Base, c \in Base}
Codons3375 == {<<a, b, c>> : a \in Iupac, b \in Iupac, c \in Iupac}
Expand(c) == {<<x, y, z>> : x \in Bases(c[1]), y \in Bases(c[2]), z \in Bases(c[3])}
Products(c) == {StdCode(e) : e \in Expand(c)}
Translatable(c) == c[1] \in Iupac /\ c[2] \in Iupac /\ c[3] \in Iupac /\ Cardinality(Products(c)) = 1
Translate(c) == IF Translatable(c) THEN CHOOSE a \in Products(c) : TRUE ELSE "X"
TranslateSeq(q) == [k \in 1..(Len(q) \div 3) |-> Translate(<<q[3*k-2], q[3*k-1], q[3*k]>>)]

(* ---- theorems checked by TLC (MC_Alphabet.cfg evaluates them) ------------ *)
ThmBitsVsSets ==     \* the mechanism (q & t) < 16 is exactly the property's set language
  \A hard \in BOOLEAN : \A a \in Sym, b \in Sym :
      ((Enc(a, hard) & Enc(b, hard)) < 16) <=> Disjoint(a, b, hard)
ThmKnownBit == \A s \in Sym : ((Enc(s, FALSE) & 8) = 8) <=> IsACGT(s)
ThmEncInjective == \A a \in Sym, b \in Sym : Enc(a, FALSE) = Enc(b, FALSE) => a = b
ThmDecEnc == \A s \in Sym : Dec(Enc(s, FALSE)) = s /\ Dec(Enc(s, TRUE)) = s
ThmCompInvolution == \A c \in Chars : CompChar(CompChar(c)) = c
ThmCompSets == \A s \in Iupac : Bases(Comp(s)) = {CompBase(b) : b \in Bases(s)}
ThmRevCompTwice == \A q \in {<<a, b, c>> : a \in {"A","r","-"}, b \in {"c","K","?"}, c \in {"T","n","B"}} :
                      RevComp(RevComp(q)) = q
ThmCode64 == /\ Len(AAs) = 64
             /\ Cardinality({c \in Codons64 : StdCode(c) = "*"}) = 3
             /\ StdCode(<<"A","T","G">>) = "M" /\ StdCode(<<"T","G","G">>) = "W"
             /\ Cardinality({StdCode(c) : c \in Codons64}) = 21
ThmTranslateSound == \A c \in Codons3375 : Translate(c) # "X" => \A e \in Expand(c) : StdCode(e) = Translate(c)
ThmUnambiguousTranslates == \A c \in Codons64 : Translate(c) = StdCode(c)
NTranslatable == Cardinality({c \in Codons3375 : Translatable(c)})
=============================================================================
