------------------------------- MODULE ObsC18 -------------------------------
(* Code -> spec for C18: every run of the binary on an input that violates a   *)
(* documented / checked condition must terminate promptly with a non-zero      *)
(* exit status.                                                                *)
EXTENDS ObsBase
VARIABLES l, nbad
FailedCli(o) ==
  LET r == o.obs.runs IN
    (IF \A k \in 1..Len(r) : ~r[k].timeout THEN {} ELSE {"hang"})
    \cup (IF \A k \in 1..Len(r) : r[k].timeout \/ r[k].exit # 0 THEN {} ELSE {"accepted-silently"})
FailedPipe(o) == IF o.obs.iserr THEN {} ELSE {"accepted-silently"}
Failed(o) ==
  IF o.obs.panic THEN {} ELSE IF o.obs.timeout THEN {"hang"} ELSE     \* a panic still ends the process with a non-zero status
  IF o.vec.fam = "pipe" THEN FailedPipe(o) ELSE FailedCli(o)
Init == l = 1 /\ nbad = 0
Next == /\ l <= Len(Trace)
        /\ LET o == Trace[l]  bad == Failed(o) IN
             /\ \A cl \in bad : Emit(FailFile, [line |-> l, id |-> o.id, clause |-> cl, signature |-> o.vec.sig])
             /\ nbad' = nbad + Cardinality(bad)
        /\ l' = l + 1
Post == TLCGet("stats").diameter = Len(Trace) + 1
=============================================================================
