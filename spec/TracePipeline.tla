---------------------------- MODULE TracePipeline ----------------------------
(* Code -> spec for the pipelines (C12, C18, C19): traces recorded from the     *)
(* real code through the verif hooks are checked against Pipeline.  Many runs  *)
(* are concatenated in one file; each starts with a "begin" line carrying the  *)
(* topology of the command that was run and ends with a "ret" line.            *)
(*                                                                              *)
(*   begin  cfg                 the pipeline is (re)initialised                 *)
(*   ready  stage, idx          a worker's hook fired: W1Ready / W2Ready        *)
(*   recv   idx                 the writer's hook fired: WriterAck              *)
(*   ret    err, order          the entry point returned; order = record        *)
(*                              indices in the order they reached the output    *)
(* Reader steps, channel hand-offs, writes, faults, closes and Main's selects   *)
(* are not logged: TLC infers them (silent steps, bounded by the model).        *)
(* After Main has returned an error the process is on its way out; whatever     *)
(* the remaining goroutines still log is consumed without being judged.         *)
EXTENDS Integers, Sequences, FiniteSets, TLC, Json, IOUtils
Trace == ndJsonDeserialize(IOEnv.VERIF_OBS)
VARIABLES cfg, rd, nxt, chIn, closedIn, w1, w2, chMid, closedMid, chOut, closedOut, wr, written, main, faulted, l
P == INSTANCE Pipeline WITH Configs <- {}
pvars == <<cfg, rd, nxt, chIn, closedIn, w1, w2, chMid, closedMid, chOut, closedOut, wr, written, main, faulted>>

Ev == Trace[l]
IsEv(e) == l <= Len(Trace) /\ Trace[l].ev = e
Consume == l' = l + 1

Cfg(c) == [c EXCEPT !.Skip = {c.Skip[i] : i \in 1..Len(c.Skip)}]       \* JSON carries the set as a list
Init == /\ Trace[1].ev = "begin" /\ P!InitWith(Cfg(Trace[1].cfg)) /\ l = 2
        /\ TLCSet(1, 2)
TReset == IsEv("begin") /\ P!ResetTo(Cfg(Ev.cfg)) /\ Consume
TReady == /\ IsEv("ready") /\ Consume
          /\ \E t \in P!Workers(cfg) :
               IF Ev.stage = 1 THEN w1[t].rec = Ev.idx /\ P!W1Ready(t)
                               ELSE w2[t].rec = Ev.idx /\ P!W2Ready(t)
TRecv  == IsEv("recv") /\ Consume /\ wr.st = "got" /\ wr.last = Ev.idx /\ P!WriterAck
IsPrefixOfInput(o) == \A k \in 1..Len(o) : o[k] = k - 1
TRet   == /\ IsEv("ret") /\ Consume /\ UNCHANGED pvars
          /\ IF "unknown" \in DOMAIN Ev                                 \* a run whose return value was not observed (the repository's own tests)
             THEN main \in {"retNil", "retErr"}
             ELSE /\ (Ev.err <=> main = "retErr")
                  /\ (~Ev.err => main = "retNil" /\ Ev.order = written)      \* an error run's partial output is not judged
TPost  == main = "retErr" /\ (IsEv("ready") \/ IsEv("recv")) /\ Consume /\ UNCHANGED pvars
Silent == /\ UNCHANGED l
          /\ \/ P!ReaderHeader \/ P!ReaderHeaderErr \/ P!ReaderSend \/ P!ReaderErr \/ P!ReaderDone
             \/ \E t \in P!Workers(cfg) : P!W1Recv(t) \/ P!W1Err(t) \/ P!W1Send(t) \/ P!W1Exit(t)
             \/ \E t \in P!Workers(cfg) : P!W2Err(t) \/ P!W2Send(t) \/ P!W2Exit(t)
             \/ P!W1Done \/ P!W2Done
             \/ P!WriterHeader \/ P!WriterRecv \/ P!WriterWrite \/ P!WriterWriteFail \/ P!WriterFlushed \/ P!WriterDone
             \/ P!MainRecvErr
Next == TReset \/ TReady \/ TRecv \/ TRet \/ TPost \/ Silent

(* acceptance: some behaviour consumes every line.  The high-water mark of l is kept in a TLC register so *)
(* that a rejection can be located (first line no behaviour could explain).                                *)
Mark == /\ TLCSet(1, IF l > TLCGet(1) THEN l ELSE TLCGet(1))
        /\ (IF l = Len(Trace) + 1 THEN TLCSet("exit", TRUE) ELSE TRUE)     \* every line explained: stop searching
NotAccepted == l <= Len(Trace)             \* "violated" = accepted (checked as an invariant to stop early)
Post == PrintT(<<"HWM", TLCGet(1), Len(Trace)>>) /\ TLCGet(1) = Len(Trace) + 1

(* the properties, evaluated in every state of every matching behaviour *)
OrderInv == cfg.Reorder => P!OrderInv
DoneOK == P!DoneOK
ErrSafety == P!ErrSafety
NoSendOnClosed == P!NoSendOnClosed
=============================================================================
