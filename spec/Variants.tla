------------------------------ MODULE Variants ------------------------------
(***************************************************************************)
(* What `variants` / `sam variants` must report for one (reference row,    *)
(* query row) pair and an annotation (C04, C05, C11, C13, C14, C15),        *)
(* written from the property statements; and the column scanner of          *)
(* pairwise.go as a state machine (MCVariants checks it against the         *)
(* definition for every column-class string).                               *)
(*                                                                          *)
(* R, Q: gapped rows of equal length (sequences of one-character strings).  *)
(* A feature: [name, strand (1 | -1), pos |-> Seq of 1-based reference       *)
(* positions in translation order (joined segments concatenated; reverse    *)
(* strand descending)].                                                     *)
(***************************************************************************)
EXTENDS Alphabet, SequencesExt

(* ---- coordinates ---------------------------------------------------------- *)
RefColsOf(R) == SelectSeq([j \in 1..Len(R) |-> j], LAMBDA j : R[j] # "-")     \* column of reference base k is RefColsOf(R)[k]
NRef(R) == Len(RefColsOf(R))
RefLeft(R, j) == Cardinality({i \in 1..(j - 1) : R[i] # "-"})                 \* reference bases strictly left of column j
QAt(R, Q, p) == Upper(Q[RefColsOf(R)[p]])                                     \* query symbol at reference position p
RAt(R, p) == Upper(R[RefColsOf(R)[p]])

(* ---- C04 (a): nucleotide differences ---------------------------------------- *)
IsSnp(R, Q, p) == Disjoint(RAt(R, p), QAt(R, Q, p), FALSE)
SnpPositions(R, Q) == {p \in 1..NRef(R) : IsSnp(R, Q, p)}

(* ---- C05: indels of a gapped pair --------------------------------------------- *)
Keep(R, Q) == SelectSeq([j \in 1..Len(R) |-> j], LAMBDA j : ~(R[j] = "-" /\ Q[j] = "-"))   \* both-gap columns do not exist for this pair
IsIns(R, Q, j) == R[j] = "-" /\ Q[j] # "-"
InsOf(R, Q) ==    \* maximal runs, in the kept columns, of reference-gap / query-base columns
  LET K == Keep(R, Q)  n == Len(K) IN
  { [type |-> "ins", pos |-> RefLeft(R, K[a]), len |-> b - a + 1] :
      <<a, b>> \in { ab \in (1..n) \X (1..n) :
          /\ ab[1] <= ab[2] /\ \A k \in ab[1]..ab[2] : IsIns(R, Q, K[k])
          /\ (ab[1] = 1 \/ ~IsIns(R, Q, K[ab[1] - 1])) /\ (ab[2] = n \/ ~IsIns(R, Q, K[ab[2] + 1])) } }
DelOf(R, Q) ==    \* maximal runs of deleted reference positions; the query's own insertions do not break a run;
                  \* runs that include the first or the last reference base are not reported
  LET C == RefColsOf(R)  n == Len(C) IN
  { [type |-> "del", pos |-> ab[1], len |-> ab[2] - ab[1] + 1] :
      ab \in { ab \in (1..n) \X (1..n) :
          /\ ab[1] <= ab[2] /\ \A k \in ab[1]..ab[2] : Q[C[k]] = "-"
          /\ (ab[1] = 1 \/ Q[C[ab[1] - 1]] # "-") /\ (ab[2] = n \/ Q[C[ab[2] + 1]] # "-")
          /\ ab[1] # 1 /\ ab[2] # n } }
IndelsOf(R, Q) == InsOf(R, Q) \cup DelOf(R, Q)

(* ---- C04 (b), (c): amino-acid changes --------------------------------------------- *)
NCodons(f) == Len(f.pos) \div 3
CodonPos(f, k) == <<f.pos[3 * k - 2], f.pos[3 * k - 1], f.pos[3 * k]>>
Strand(f, s) == IF f.strand = -1 THEN Comp(s) ELSE s
RefCodon(R, f, k) == LET p == CodonPos(f, k) IN <<Strand(f, RAt(R, p[1])), Strand(f, RAt(R, p[2])), Strand(f, RAt(R, p[3]))>>
QryCodon(R, Q, f, k) == LET p == CodonPos(f, k) IN <<Strand(f, QAt(R, Q, p[1])), Strand(f, QAt(R, Q, p[2])), Strand(f, QAt(R, Q, p[3]))>>
IsNuc3(c) == c[1] \in Iupac /\ c[2] \in Iupac /\ c[3] \in Iupac
AAOf(c) == IF IsNuc3(c) THEN Translate(c) ELSE "X"
AAChanges(R, Q, feats) ==      \* the set of <<feature name, residue, ref aa, query aa>> that must be reported, and only those
  { <<feats[i].name, k, AAOf(RefCodon(R, feats[i], k)), AAOf(QryCodon(R, Q, feats[i], k))>> :
      <<i, k>> \in { ik \in (1..Len(feats)) \X (1..20) :
            /\ ik[2] <= NCodons(feats[ik[1]])
            /\ AAOf(QryCodon(R, Q, feats[ik[1]], ik[2])) # "X"
            /\ AAOf(QryCodon(R, Q, feats[ik[1]], ik[2])) # AAOf(RefCodon(R, feats[ik[1]], ik[2])) } }
CodonPositionsOf(feats, name, k) == UNION { {CodonPos(feats[i], k)[1], CodonPos(feats[i], k)[2], CodonPos(feats[i], k)[3]} :
                                            i \in {i \in 1..Len(feats) : feats[i].name = name /\ k <= NCodons(feats[i])} }

(* ---- C15: --start / --end keep the mutations whose position lies in the window ------- *)
InWindow(p, s, e) == (s = -1 \/ s <= p) /\ (e = -1 \/ p <= e)

(* ---- the column scanner of getIndelsPair as a machine (one step per column) ----------- *)
(* state: pos (next column), insOpen/insStart/insLen, delOpen/delStart/delLen, out.       *)
(* AsCoded: positions are converted with MSAToRef, which is 0 at reference-gap columns.    *)
ScanStep(R, Q, j, st, asCoded) ==
  LET toRef(c) == IF asCoded THEN (IF R[c] = "-" THEN c - 1 ELSE RefLeft(R, c)) ELSE RefLeft(R, c)
      closeIns(s) == IF s.insOpen THEN [s EXCEPT !.out = @ \cup {[type |-> "ins", pos |-> toRef(s.insStart), len |-> s.insLen]}, !.insOpen = FALSE] ELSE s
      closeDel(s) == IF s.delOpen
                     THEN [s EXCEPT !.out = IF RefLeft(R, s.delStart) # 0 THEN @ \cup {[type |-> "del", pos |-> RefLeft(R, s.delStart) + 1, len |-> s.delLen]} ELSE @,
                                    !.delOpen = FALSE]
                     ELSE s
  IN IF R[j] = "-"
     THEN IF Q[j] = "-" THEN st
          ELSE IF st.insOpen THEN [st EXCEPT !.insLen = @ + 1] ELSE [st EXCEPT !.insOpen = TRUE, !.insStart = j, !.insLen = 1]
     ELSE LET s1 == closeIns(st) IN
          IF Q[j] = "-" THEN (IF s1.delOpen THEN [s1 EXCEPT !.delLen = @ + 1] ELSE [s1 EXCEPT !.delOpen = TRUE, !.delStart = j, !.delLen = 1])
          ELSE closeDel(s1)
ScanInit == [insOpen |-> FALSE, insStart |-> 0, insLen |-> 0, delOpen |-> FALSE, delStart |-> 0, delLen |-> 0, out |-> {}]
ScanFinish(R, st, asCoded) ==      \* an insertion that abuts the end of the alignment is still logged; an open deletion is not
  IF st.insOpen
  THEN st.out \cup {[type |-> "ins", pos |-> (IF asCoded THEN (IF R[st.insStart] = "-" THEN st.insStart - 1 ELSE RefLeft(R, st.insStart)) + 1 ELSE RefLeft(R, st.insStart)), len |-> st.insLen]}
  ELSE st.out
=============================================================================
