SPECIFICATION Spec
CONSTANTS
  Muts <- DefaultMuts
  NSeq = 2
  KeyFields <- KeyAsCoded
  ThrNum = 1
  ThrDen = 2
INVARIANT Frequencies
INVARIANT Deterministic
CHECK_DEADLOCK FALSE
