INIT Init
NEXT Next
CONSTANT MaxLines = 5
INVARIANT EmitInv
CHECK_DEADLOCK FALSE
