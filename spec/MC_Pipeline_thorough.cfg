SPECIFICATION Spec
CONSTANTS
  MaxN = 4
  MaxT = 3
  Variant = "intended"
INVARIANT OrderInv
INVARIANT DoneOK
INVARIANT NoLostRecord
INVARIANT NoSendOnClosed
INVARIANT ErrSafety
PROPERTY Termination
PROPERTY ErrReported
CHECK_DEADLOCK FALSE
