SPECIFICATION Spec
CONSTANTS
  MaxRecs = 3
  OwnOffsets = TRUE
INVARIANT Refines
INVARIANT RowsAligned
INVARIANT NoStuck
CHECK_DEADLOCK FALSE
