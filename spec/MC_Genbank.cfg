CONSTANT MaxLines = 5
INIT Init
NEXT Next
INVARIANT Sound
CHECK_DEADLOCK FALSE
