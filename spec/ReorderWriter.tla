--------------------------- MODULE ReorderWriter ---------------------------
(***************************************************************************)
(* The re-ordering writer shared by WriteAlignment, writeOutput,            *)
(* WriteVariants, reorderRecords and (since 2e70a11) writePairwiseAlignment: *)
(* records 0..N-1 reach it in ANY order; it files each one in a buffer and  *)
(* writes the record numbered `counter` whenever that one is in the buffer. *)
(* Proved with TLAPS for every N and every arrival order: what has been     *)
(* written is always 0, 1, ..., counter-1 in this order (OrderInv), and     *)
(* when nothing is pending or buffered everything has been written.         *)
(* (TLC checks the same protocol with its surroundings - reader, workers,   *)
(* Main, faults - for small N in Pipeline.tla; this is the unbounded core.) *)
(***************************************************************************)
EXTENDS Integers, Sequences, FiniteSets, TLAPS
CONSTANT N
ASSUME NAssump == N \in Nat
VARIABLES pending, buf, counter, written
vars == <<pending, buf, counter, written>>
Recs == 0..(N - 1)
Init == pending = Recs /\ buf = {} /\ counter = 0 /\ written = <<>>
Recv(r) == /\ r \in pending /\ pending' = pending \ {r} /\ buf' = buf \cup {r}
           /\ UNCHANGED <<counter, written>>
Write == /\ counter \in buf /\ buf' = buf \ {counter}
         /\ written' = Append(written, counter) /\ counter' = counter + 1
         /\ UNCHANGED pending
Next == (\E r \in Recs : Recv(r)) \/ Write
Spec == Init /\ [][Next]_vars

OrderInv == \A i \in 1..Len(written) : written[i] = i - 1
Complete == (pending = {} /\ buf = {}) => Len(written) = N
IndInv == /\ counter \in 0..N
          /\ pending \subseteq Recs /\ buf \subseteq Recs /\ pending \cap buf = {}
          /\ \A r \in Recs : (r < counter) <=> (r \notin pending /\ r \notin buf)
          /\ written \in Seq(Int) /\ Len(written) = counter
          /\ \A i \in 1..counter : written[i] = i - 1

THEOREM InitInd == Init => IndInv
  BY NAssump DEF Init, IndInv, Recs
THEOREM NextInd == IndInv /\ [Next]_vars => IndInv'
<1> SUFFICES ASSUME IndInv, [Next]_vars PROVE IndInv'
  OBVIOUS
<1>1. CASE \E r \in Recs : Recv(r)
  BY <1>1, NAssump DEF IndInv, Recv, Recs
<1>2. CASE Write
  <2>1. counter \in Recs /\ counter < N
    BY <1>2, NAssump DEF IndInv, Write, Recs
  <2>2. written' = Append(written, counter) /\ Len(written') = counter + 1
    BY <1>2 DEF IndInv, Write
  <2>3. \A i \in 1..(counter + 1) : written'[i] = i - 1
    BY <1>2, <2>2 DEF IndInv, Write
  <2>4. written' \in Seq(Int)
    BY <1>2, <2>1 DEF IndInv, Write, Recs
  <2>5. \A r \in Recs : (r < counter') <=> (r \notin pending' /\ r \notin buf')
    BY <1>2, <2>1, NAssump DEF IndInv, Write, Recs
  <2> QED BY <1>2, <2>1, <2>2, <2>3, <2>4, <2>5, NAssump DEF IndInv, Write, Recs
<1>3. CASE UNCHANGED vars
  BY <1>3 DEF IndInv, vars
<1> QED BY <1>1, <1>2, <1>3 DEF Next
THEOREM IndImpliesOrder == IndInv => OrderInv /\ Complete
  BY NAssump DEF IndInv, OrderInv, Complete, Recs
THEOREM Safety == Spec => [](OrderInv /\ Complete)
<1>1. Init => IndInv BY InitInd
<1>2. IndInv /\ [Next]_vars => IndInv' BY NextInd
<1>3. IndInv => OrderInv /\ Complete BY IndImpliesOrder
<1> QED BY <1>1, <1>2, <1>3, PTL DEF Spec
=============================================================================
