SPECIFICATION Spec
CONSTANTS
  MaxT = 3
  Dists = {0, 1, 2}
  Comps = {1, 2, 3}
  Ks = {0, 1, 2, 3}
  Ds = {77, 1}
  AsCoded = TRUE
INVARIANT Refines
INVARIANT TypeOK
INVARIANT CapInv
CHECK_DEADLOCK FALSE
