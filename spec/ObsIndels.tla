------------------------------ MODULE ObsIndels ------------------------------
(* Code -> spec for `sam indels`: the two tables the real command wrote for    *)
(* every SAM block, against SamIndels.                                         *)
EXTENDS SamIndels, ObsBase
VARIABLES l, nbad
CountIn(s, q) == Cardinality({i \in 1..Len(s) : s[i] = q})
TableOK(recs, thr, tab, keys, Count(_, _, _), header, keyOf(_)) ==
  LET want == {x \in keys : Size(recs, x, Count) >= thr} IN
  /\ tab.header = header
  /\ \A i \in 1..Len(tab.rows) : ~Has(tab.rows[i], "bad")
  /\ {keyOf(tab.rows[i]) : i \in 1..Len(tab.rows)} = want /\ Len(tab.rows) = Cardinality(want)
  /\ \A i \in 1..(Len(tab.rows) - 1) : tab.rows[i].start <= tab.rows[i + 1].start
  /\ \A i \in 1..Len(tab.rows) : keyOf(tab.rows[i]) \in want =>
        /\ \A q \in Queries(recs) : CountIn(tab.rows[i].samples, q) = Count(recs, keyOf(tab.rows[i]), q)
        /\ \A j \in 1..Len(tab.rows[i].samples) : tab.rows[i].samples[j] \in Queries(recs)
InsRowKey(r) == <<r.start, r.seq>>
DelRowKey(r) == <<r.start, r.len>>
Failed(o) ==
  IF o.obs.panic THEN {"panic"} ELSE IF o.obs.timeout THEN {"timeout"} ELSE
  IF o.obs.err # "" THEN {"unexpected-error"} ELSE
    (IF TableOK(o.vec.recs, o.vec.thr, o.obs.ins, InsKeys(o.vec.recs), InsCount, "ref_start\tinsertion\tsamples", InsRowKey) THEN {} ELSE {"insertions"})
    \cup (IF TableOK(o.vec.recs, o.vec.thr, o.obs.del, DelKeys(o.vec.recs), DelCount, "ref_start\tlength\tsamples", DelRowKey) THEN {} ELSE {"deletions"})
Init == l = 1 /\ nbad = 0
Next == /\ l <= Len(Trace)
        /\ LET o == Trace[l]  bad == Failed(o) IN
             /\ \A cl \in bad : Emit(FailFile, [line |-> l, id |-> o.id, clause |-> cl, signature |-> cl])
             /\ nbad' = nbad + Cardinality(bad)
        /\ l' = l + 1
Post == TLCGet("stats").diameter = Len(Trace) + 1
=============================================================================
