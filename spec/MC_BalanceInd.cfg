SPECIFICATION TSpec
CONSTANT M = 3
INVARIANT IndInv
INVARIANT SameAsBalance
PROPERTY Terminates
CHECK_DEADLOCK FALSE
