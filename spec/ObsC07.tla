------------------------------- MODULE ObsC07 -------------------------------
(* Code -> spec for C07: every printed distance is judged against the          *)
(* definitions in Distance.  snp: integer equality.  raw: the 9-decimal text    *)
(* equals Dec9(n, d) (NaN iff d = 0).  tn93: the spec supplies the integer      *)
(* statistics (P1, P2, Q, L, target base counts); eq. 7 itself needs logarithms *)
(* and is evaluated on those integers by the driver (DESIGN.md section 8).      *)
EXTENDS Distance, ObsBase
VARIABLES l, nbad

Rep(v) == IF Has(v, "rep") THEN v.rep ELSE 1
RowOK(v, r) ==
  LET q == v.queries[r.qi]  t == v.targets[r.ti] IN
  CASE v.measure = "snp" -> r.dist = Rep(v) * SnpDist(q, t)
    [] v.measure = "raw" -> IF RawDen(q, t) = 0 THEN (r.nan \/ r.dist = -1)
                            ELSE r.dist = Dec9(RawNum(q, t), RawDen(q, t)) /\ r.dist >= 0 /\ r.dist <= 1000000000
    [] v.measure = "tn93" -> TRUE
SnpsOK(v, r) ==
  LET q == v.queries[r.qi]  t == v.targets[r.ti]
      cols == SelectSeq(Ix(Len(q)), LAMBDA j : Differ(q[j], t[j]))
  IN r.snps = [k \in 1..Len(cols) |-> <<cols[k], Upper(q[cols[k]]), Upper(t[cols[k]])>>]
InRange(v, r) == ~Has(r, "bad") /\ Has(r, "ti") /\ r.qi \in 1..Len(v.queries) /\ r.ti \in 1..Len(v.targets)

Failed(o) ==
  IF o.obs.panic THEN {"panic"} ELSE IF o.obs.timeout THEN {"timeout"} ELSE
  LET v == o.vec  rs == o.obs.rows IN
  IF o.obs.err # "" THEN {"unexpected-error"} ELSE
  IF CliBad(o.obs) THEN {"cli-wiring"} ELSE
  IF ~(\A k \in 1..Len(rs) : InRange(v, rs[k])) THEN {"rows"} ELSE
    (IF \A k \in 1..Len(rs) : RowOK(v, rs[k]) THEN {} ELSE {"distance-" \o v.measure})
    \cup (IF v.n = 0 /\ ~(\A k \in 1..Len(rs) : SnpsOK(v, rs[k])) THEN {"snp-list"} ELSE {})
    \cup (IF v.n > 0 /\ {<<rs[k].qi, rs[k].ti>> : k \in 1..Len(rs)} # (1..Len(v.queries)) \X (1..Len(v.targets)) THEN {"all-pairs-listed"} ELSE {})

Init == l = 1 /\ nbad = 0
Next == /\ l <= Len(Trace)
        /\ LET o == Trace[l]  bad == Failed(o) IN
             /\ \A cl \in bad : Emit(FailFile, [line |-> l, id |-> o.id, clause |-> cl, signature |-> cl])
             /\ (IF o.vec.measure = "tn93" /\ ~o.obs.panic /\ ~o.obs.timeout /\ bad = {}
                 THEN \A k \in 1..Len(o.obs.rows) :
                        Emit(StatFile, [line |-> l, row |-> k, dtext |-> o.obs.rows[k].dtext,
                                        st |-> ScaleStats(TN93Stats(o.vec.queries[o.obs.rows[k].qi], o.vec.targets[o.obs.rows[k].ti]), Rep(o.vec))])
                 ELSE TRUE)
             /\ nbad' = nbad + Cardinality(bad)
        /\ l' = l + 1
Post == TLCGet("stats").diameter = Len(Trace) + 1
=============================================================================
