INIT Init
NEXT Next
CONSTANT MaxT = 4
INVARIANT EmitInv
CHECK_DEADLOCK FALSE
