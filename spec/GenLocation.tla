----------------------------- MODULE GenLocation -----------------------------
(* Spec -> code for Location: every tree of depth <= 2 with <= 2 kids over   *)
(* five leaves, three-kid operators over the leaves, and depth-3 trees over  *)
(* three leaves (quick: single-kid roots; thorough: also two-kid roots with  *)
(* one shallow kid).  The vector carries the tree and its text.              *)
EXTENDS Location, GenBase
Small == {<<"r", 2, 4>>, <<"r", 6, 6>>, <<"r", 8, 9>>, <<"n", 5>>, <<"p", 1, 3>>}
Tiny == {<<"r", 2, 4>>, <<"r", 7, 8>>, <<"n", 5>>}
Ops(S, n) == {<<op, cs>> : op \in {"j", "c"}, cs \in [1..n -> S]}
RECURSIVE Trees(_, _)
Trees(L, d) == IF d = 0 THEN L ELSE LET S == Trees(L, d - 1) IN S \cup Ops(S, 1) \cup Ops(S, 2)
D2 == TLCEval(Trees(Small, 2))
T1 == TLCEval(Trees(Tiny, 1))
T2 == TLCEval(Trees(Tiny, 2))
Wide == Ops(Small, 3) \cup {<<"j", <<a, b, a, b>>>> : a \in {<<"r", 2, 4>>, <<"c", <<<<"r", 2, 4>>>>>>}, b \in {<<"r", 11, 13>>, <<"c", <<<<"r", 11, 13>>>>>>}}
Deep == Ops(T2, 1) \cup (IF Thorough THEN {<<op, <<a, b>>>> : op \in {"j", "c"}, a \in T2, b \in T1} \cup {<<op, <<b, a>>>> : op \in {"j", "c"}, a \in T2, b \in T1} ELSE {})
(* long coordinates: the parser slices the first four characters of a field *)
Long == {<<"r", 100, 102>>, <<"c", <<<<"r", 1000, 1003>>>>>>, <<"j", <<<<"r", 10, 12>>, <<"r", 100, 101>>>>>>, <<"c", <<<<"j", <<<<"r", 10, 12>>, <<"r", 100, 101>>>>>>>>>>, <<"n", 12345>>}
VARIABLE v
Init == v \in D2 \cup Wide \cup Deep \cup Long
Next == UNCHANGED v
EmitInv == EmitVec([id |-> Text(v), tree |-> v, text |-> Text(v)])
=============================================================================
