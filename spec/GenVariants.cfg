INIT Init
NEXT Next
CONSTANT MaxCls = 6
INVARIANT EmitInv
CHECK_DEADLOCK FALSE
