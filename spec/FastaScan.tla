------------------------------ MODULE FastaScan ------------------------------
(***************************************************************************)
(* FASTA reading at the abstraction of line kinds (C16, and the FASTA part  *)
(* of C18).  A stream is a sequence of lines; a line is one of              *)
(*   ha  ">s1"                       header, ID only                         *)
(*   hb  ">s2 some description"      header with a description               *)
(*   ht  ">s3<TAB>tabbed header"     header whose ID ends at a tab            *)
(*   hl  "> s4 after a blank"        header with blanks before the ID        *)
(*   hn  ">"      hs  "> "           header without an ID                    *)
(*   AC ac N- GT  two-symbol sequence lines (ac: lower case)                 *)
(*   A            a one-symbol sequence line (makes widths differ)           *)
(*   AZ           a sequence line with a symbol outside the alphabet         *)
(*   bl           a blank line                                               *)
(*   sp           a line of blanks only ("  <TAB>")                          *)
(*   Ab           "AC " - a sequence line with a trailing blank               *)
(* Records(lines) is what a reader must yield for a valid stream; Class     *)
(* says which of the statement's error classes a stream is in; the scanner  *)
(* the five readers share is given as a machine (one action per branch)     *)
(* which MCFasta checks against both.                                       *)
(***************************************************************************)
EXTENDS Alphabet, SequencesExt

Kinds == {"ha", "hb", "ht", "hl", "hn", "hs", "AC", "ac", "N-", "GT", "A", "AZ", "bl", "sp", "Ab"}
IsHeader(k) == k \in {"ha", "hb", "ht", "hl", "hn", "hs"}
HasId(k) == k \in {"ha", "hb", "ht", "hl"}
IsSeq(k) == k \in {"AC", "ac", "N-", "GT", "A", "AZ", "sp", "Ab"}
IdOf(k) == IF k = "ha" THEN "s1" ELSE IF k = "hb" THEN "s2" ELSE IF k = "ht" THEN "s3" ELSE IF k = "hl" THEN "s4" ELSE ""   \* first whitespace-delimited token
DescOf(k) == IF k = "ha" THEN "s1" ELSE IF k = "hb" THEN "s2 some description" ELSE IF k = "ht" THEN "s3\ttabbed header"
             ELSE IF k = "hl" THEN " s4 after a blank" ELSE IF k = "hs" THEN " " ELSE ""                                     \* the whole header
SymsOf(k) == CASE k = "AC" -> <<"A", "C">> [] k = "ac" -> <<"A", "C">> [] k = "N-" -> <<"N", "-">> [] k = "GT" -> <<"G", "T">>
               [] k = "A" -> <<"A">> [] k = "AZ" -> <<"A", "Z">> [] OTHER -> <<>>
Bad(k) == k \in {"AZ", "sp", "Ab"}            \* sp: a line of blanks and a tab; Ab: "AC " - blanks are not in the alphabet (as coded: refused)

(* ---- the definition: records of a stream, header by header --------------------------- *)
HeaderIdx(ls) == SelectSeq([i \in 1..Len(ls) |-> i], LAMBDA i : IsHeader(ls[i]))
RECURSIVE CatSyms(_, _, _)
CatSyms(ls, a, b) == IF a > b THEN <<>> ELSE SymsOf(ls[a]) \o CatSyms(ls, a + 1, b)
Records(ls) ==
  LET h == HeaderIdx(ls) IN
  [k \in 1..Len(h) |-> [id |-> IdOf(ls[h[k]]), desc |-> DescOf(ls[h[k]]), idx |-> k - 1,
                        seq |-> CatSyms(ls, h[k] + 1, IF k = Len(h) THEN Len(ls) ELSE h[k + 1] - 1)]]
Score12(seq) == LET RECURSIVE S(_) S(i) == IF i = 0 THEN 0 ELSE Score(seq[i]) + S(i - 1) IN S(Len(seq))
CountOf(seq, b) == Cardinality({i \in 1..Len(seq) : seq[i] = b})

(* ---- the statement's classes ------------------------------------------------------------ *)
NonBlank(ls) == SelectSeq(ls, LAMBDA k : k # "bl")
Class(ls) ==
  LET nb == NonBlank(ls)  recs == Records(nb) IN
  IF nb = <<>> THEN "NoRecords"
  ELSE IF ~IsHeader(nb[1]) THEN "NoLeadingHeader"
  ELSE IF \E i \in 1..Len(ls) : ls[i] \in {"bl", "sp", "Ab"} \/ (IsHeader(ls[i]) /\ ~HasId(ls[i])) THEN "Other"       \* blank lines, headers without an ID:
                                                                                                    \* read or refused, but never a crash
  ELSE IF \E k \in 1..Len(recs) : Len(recs[k].seq) = 0 THEN "Other"                                 \* records without sequence: unspecified
  ELSE IF \E i \in 1..Len(ls) : Bad(ls[i]) THEN "BadSymbol"
  ELSE IF \E a, b \in 1..Len(recs) : Len(recs[a].seq) # Len(recs[b].seq) THEN "UnequalWidth"
  ELSE "Valid"
ErrorClass(c) == c \in {"NoRecords", "NoLeadingHeader", "BadSymbol", "UnequalWidth"}

(* ---- the scanner (ReadEncodeAlignment and its four siblings), one step per line ----------- *)
(* state: first, id, desc, buf, width, counter, recs, err                                        *)
ScanInit == [first |-> TRUE, id |-> "", desc |-> "", buf |-> <<>>, width |-> 0, counter |-> 0, recs |-> <<>>, err |-> ""]
EmitRec(st) == [st EXCEPT !.recs = Append(@, [id |-> st.id, desc |-> st.desc, idx |-> st.counter, seq |-> st.buf]), !.counter = @ + 1]
LineStep(st, k) ==
  IF st.err # "" THEN st
  ELSE IF k = "bl" THEN st                                                     \* LineBlank: skipped
  ELSE IF st.first THEN
         IF ~IsHeader(k) THEN [st EXCEPT !.err = "NoLeadingHeader"]            \* LineNotHeaderFirst
         ELSE IF ~HasId(k) THEN [st EXCEPT !.err = "NoId"]                     \* LineHeaderNoId
         ELSE [st EXCEPT !.first = FALSE, !.id = IdOf(k), !.desc = DescOf(k)]  \* LineHeader (first)
  ELSE IF IsHeader(k) THEN
         IF st.counter > 0 /\ Len(st.buf) # st.width THEN [st EXCEPT !.err = "UnequalWidth"]
         ELSE IF ~HasId(k) THEN [st EXCEPT !.err = "NoId"]
         ELSE LET e == EmitRec(IF st.counter = 0 THEN [st EXCEPT !.width = Len(st.buf)] ELSE st)
              IN [e EXCEPT !.id = IdOf(k), !.desc = DescOf(k), !.buf = <<>>]    \* LineHeader (next record)
  ELSE IF Bad(k) THEN [st EXCEPT !.err = "BadSymbol"]                           \* LineBadSym
  ELSE [st EXCEPT !.buf = @ \o SymsOf(k)]                                       \* LineSeq
Eof(st) ==
  IF st.err # "" THEN st
  ELSE LET s1 == IF Len(st.buf) > 0
                 THEN (IF st.counter > 0 /\ Len(st.buf) # st.width THEN [st EXCEPT !.err = "UnequalWidth"] ELSE EmitRec(st))
                 ELSE st
       IN IF s1.err = "" /\ s1.counter = 0 THEN [s1 EXCEPT !.err = "NoRecords"] ELSE s1
=============================================================================
