SPECIFICATION Spec
CONSTANTS
  MaxT = 4
  Dists = {0, 1, 2}
  Comps = {1, 2, 3}
  Ks = {0, 1, 2, 3}
  Ds = {77, 1}
  AsCoded = FALSE
INVARIANT Refines
INVARIANT TypeOK
INVARIANT CapInv
CHECK_DEADLOCK FALSE
