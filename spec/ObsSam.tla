------------------------------- MODULE ObsSam -------------------------------
(* Code -> spec for the SAM conversions.  One observation = one abstract SAM    *)
(* file run under several option sets; every run is judged against Sam.tla.    *)
(* Clause names are prefixed with the property they belong to:                  *)
(*   C01-*  toMultiAlign rows = MARow (projection, flattening, flanks, window)  *)
(*   C02-*  toPairAlign pair = PairOf / its window; the derived clauses          *)
(*   C15-*  window / pad / wrap relations between two real runs                 *)
(* Domain (DESIGN.md section 7): every emitted query has an aligned base;        *)
(* C02 additionally needs non-conflicting records.                              *)
EXTENDS Sam, Variants, ObsBase
VARIABLES l, nbad

L(v) == Len(v.ref)
Blocks(v) == TLCEval(Groups(v.recs))
HasAligned(b) == \E i \in 1..Len(b) : \E k \in 1..Len(b[i].cig) : Aligned(b[i].cig[k][1])
InRef(v) == \A i \in 1..Len(v.recs) : Contributes(v.recs[i]) => v.recs[i].pos + RefSpan(v.recs[i].cig) <= L(v)
DomainC01(v) == InRef(v) /\ \A g \in 1..Len(Blocks(v)) : HasAligned(Blocks(v)[g])
DomainC02(v) == DomainC01(v) /\ \A g \in 1..Len(Blocks(v)) : NonConflicting(Blocks(v)[g])
S(v, r) == IF r.s = -1 THEN 1 ELSE r.s
E(v, r) == IF r.e = -1 THEN L(v) ELSE r.e

(* Everything that depends on the vector only is computed once per observation (ctx) and forced with    *)
(* TLCEval; TLC would otherwise re-evaluate the lazy definitions for each of the 12 runs and each clause. *)
Ctx(v) ==
  LET B == TLCEval(Groups(v.recs))
      flat == TLCEval([g \in 1..Len(B) |-> Flat(B[g], Len(v.ref))])
      inref == \A i \in 1..Len(v.recs) : Contributes(v.recs[i]) => v.recs[i].pos + RefSpan(v.recs[i].cig) <= Len(v.ref)
      d1 == inref /\ \A g \in 1..Len(B) : HasAligned(B[g])
      d2 == d1 /\ \A g \in 1..Len(B) : NonConflicting(B[g])
      full == TLCEval([g \in 1..Len(B) |-> IF d2 THEN PairFrom(v.ref, B[g], SwapN(flat[g]), 0, Len(v.ref)) ELSE [R |-> <<>>, Q |-> <<>>]])
  IN [B |-> B, flat |-> flat, d1 |-> d1, d2 |-> d2, full |-> full]

(* ---- toMultiAlign ------------------------------------------------------------- *)
TomaOK(v, c, r, o) ==
  /\ o.err = ""
  /\ Len(o.recs) = Len(c.B)
  /\ \A g \in 1..Len(c.B) :
       /\ o.recs[g].qi = c.B[g][1].q
       /\ o.recs[g].seq = WindowOf(FlankRule(c.flat[g], r.pad), S(v, r), E(v, r), r.pad)
TomaWrapOK(v, r, o) == \A g \in 1..Len(o.recs) : WrapOK(o.recs[g].lens, Len(o.recs[g].seq), r.wrap)

(* ---- toPairAlign ---------------------------------------------------------------- *)
PairFor(o, qn) == LET S1 == SelectSeq(o.pairs, LAMBDA p : p.qi = qn) IN IF Len(S1) = 1 THEN S1[1] ELSE [qi |-> -2]
ExpectPair(v, c, r, g) ==
  LET fl == SwapN(c.flat[g]) IN
  IF r.skipins THEN [R |-> SubSeq(v.ref, S(v, r), E(v, r)), Q |-> SubSeq(fl, S(v, r), E(v, r))]
  ELSE IF r.s = -1 /\ r.e = -1 THEN c.full[g]
  ELSE LET s == S(v, r)  e == E(v, r)  first == [R |-> <<v.ref[s]>>, Q |-> <<fl[s]>>] IN
       IF s = e THEN first
       ELSE LET rest == PairFrom(v.ref, c.B[g], fl, s, e - 1) IN [R |-> first.R \o rest.R, Q |-> first.Q \o rest.Q]
TopaOK(v, c, r, o) ==
  /\ o.err = ""
  /\ Len(o.pairs) = Len(c.B)
  /\ \A g \in 1..Len(c.B) :
       LET p == PairFor(o, c.B[g][1].q)  want == ExpectPair(v, c, r, g) IN
         /\ p.qi = c.B[g][1].q /\ p.qname = p.qi
         /\ p.hasref = ~r.omitref
         /\ p.q = want.Q
         /\ (~r.omitref => p.r = want.R)
TopaWrapOK(v, r, o) == \A g \in 1..Len(o.pairs) :
     /\ WrapOK(o.pairs[g].qlens, Len(o.pairs[g].q), r.wrap)
     /\ (o.pairs[g].hasref => WrapOK(o.pairs[g].rlens, Len(o.pairs[g].r), r.wrap))
RefCols(R) == SelectSeq([i \in 1..Len(R) |-> i], LAMBDA i : R[i] # "-")
(* derived clauses of C02, each on the real output alone / against the real toMultiAlign --pad run *)
TopaDerivedOK(v, r, o, padrun) ==
  \A g \in 1..Len(o.pairs) : LET p == o.pairs[g] IN
     (p.hasref /\ ~r.skipins) =>
        LET rc == RefCols(p.r) IN
        /\ Len(p.r) = Len(p.q)
        /\ [k \in 1..Len(rc) |-> p.r[rc[k]]] = SubSeq(v.ref, S(v, r), E(v, r))
        /\ (r.s = -1 /\ r.e = -1 /\ padrun.err = "") =>
              \A h \in 1..Len(padrun.recs) : padrun.recs[h].qi = p.qi => [k \in 1..Len(rc) |-> p.q[rc[k]]] = padrun.recs[h].seq

(* ---- C15: relations between real runs -------------------------------------------- *)
RunIdx(v, P(_)) == {k \in 1..Len(v.runs) : P(v.runs[k])}
UntrimmedSet(v, pad) == RunIdx(v, LAMBDA r : r.cmd = "toma" /\ r.pad = pad /\ r.s = -1 /\ r.e = -1 /\ r.wrap = -1)
Untrimmed(v, pad) == CHOOSE k \in UntrimmedSet(v, pad) : TRUE
HasUntrimmed(v, pad) == UntrimmedSet(v, pad) # {}
WindowRelOK(v, k, o) ==       \* run k is a toma run with a window: it equals the window of the untrimmed real run
  LET r == v.runs[k]  base == o.runs[Untrimmed(v, r.pad)] IN
  (o.runs[k].err = "" /\ base.err = "" /\ Len(base.recs) = Len(o.runs[k].recs)) =>
     \A g \in 1..Len(base.recs) : o.runs[k].recs[g].seq = WindowOf(base.recs[g].seq, S(v, r), E(v, r), r.pad)
UntrimmedTopa(v) == RunIdx(v, LAMBDA r : r.cmd = "topa" /\ r.s = -1 /\ r.e = -1 /\ ~r.skipins /\ ~r.omitref /\ r.wrap = -1)
TopaWindowRelOK(v, k, o) ==   \* a windowed pair = the untrimmed real pair cut from the column of base s to that of base e
  LET r == v.runs[k] IN
  \A u \in UntrimmedTopa(v) : (o.runs[k].err = "" /\ o.runs[u].err = "") =>
     \A g \in 1..Len(o.runs[k].pairs) : LET p == o.runs[k].pairs[g]  b == PairFor(o.runs[u], p.qi) IN
        (b.qi = p.qi /\ b.hasref) =>
           LET rc == RefCols(b.r) IN
           (Len(rc) = Len(v.ref)) =>
             /\ p.q = SubSeq(b.q, rc[S(v, r)], rc[E(v, r)])
             /\ (p.hasref => p.r = SubSeq(b.r, rc[S(v, r)], rc[E(v, r)]))

(* ---- sam variants on (multi-record) blocks: C11 relation and the expected indels / SNPs of the pair (C05, C04) ------ *)
RowOfQ(ro, qn) == LET S1 == SelectSeq(ro.rows, LAMBDA x : x.qi = qn) IN IF Len(S1) = 1 THEN S1[1].muts ELSE <<[t |-> "missing-row", p |-> -1, l |-> -1, text |-> "?"]>>
MutTexts(ms) == [i \in 1..Len(ms) |-> ms[i].text]
SamVarFailed(v, c, k, o) ==
  LET ro == o.runs[k]
      others == {x \in 1..Len(v.runs) : v.runs[x].cmd = "topavar"}
      tomas == {x \in 1..Len(v.runs) : v.runs[x].cmd = "tomavar"}
      NoIns(g) == \A i \in 1..Len(c.B[g]) : \A j \in 1..Len(c.B[g][i].cig) : c.B[g][i].cig[j][1] # "I"
  IN (IF c.d1 /\ ro.err = "" /\                  \* two real outputs: records that overlap and disagree are in this relation's domain
         ~(\A x \in tomas : o.runs[x].err = "" =>       \* the toMultiAlign row (--pad) in an alignment with the reference: queries without insertions
              \A g \in 1..Len(c.B) : NoIns(g) => MutTexts(RowOfQ(ro, c.B[g][1].q)) = MutTexts(RowOfQ(o.runs[x], c.B[g][1].q)))
      THEN {"C11-sam-vs-msa-block"} ELSE {}) \cup
     IF ~c.d2 THEN {} ELSE
     IF ro.err # "" THEN {"C11-sam-variants-error"} ELSE
       (IF \A x \in others : o.runs[x].err = "" => \A g \in 1..Len(c.B) : MutTexts(RowOfQ(ro, c.B[g][1].q)) = MutTexts(RowOfQ(o.runs[x], c.B[g][1].q))
        THEN {} ELSE {"C11-sam-vs-pair-block"})

       \cup (IF \A g \in 1..Len(c.B) :
                  LET ms == RowOfQ(ro, c.B[g][1].q)
                      io == SelectSeq(ms, LAMBDA m : m.t \in {"ins", "del"})
                      nu == SelectSeq(ms, LAMBDA m : m.t = "nuc")
                      pair == c.full[g]
                  IN /\ {[type |-> io[i].t, pos |-> io[i].p, len |-> io[i].l] : i \in 1..Len(io)} = IndelsOf(pair.R, pair.Q)
                     /\ {nu[i].p : i \in 1..Len(nu)} = SnpPositions(pair.R, pair.Q)
                     /\ \A i \in 1..Len(ms) : ms[i].t \in {"ins", "del", "nuc"}
              THEN {} ELSE {"C05-sam-block-mutations"})
FailedRun(v, c, k, o) ==
  LET r == v.runs[k]  ro == o.runs[k] IN
  IF r.cmd \in {"topavar", "tomavar"} THEN {} ELSE
  IF r.cmd = "samvar" THEN SamVarFailed(v, c, k, o) ELSE
  IF r.cmd = "toma" THEN
       (IF c.d1 /\ ~TomaOK(v, c, r, ro) THEN {"C01-row"} ELSE {})
       \cup (IF CliBad(ro) THEN {"C01-cli-wiring", "C15-cli-wiring"} ELSE {})
       \cup (IF ro.err = "" /\ ~TomaWrapOK(v, r, ro) THEN {"C15-wrap"} ELSE {})
       \cup (IF (r.s # -1 \/ r.e # -1) /\ r.wrap = -1 /\ HasUntrimmed(v, r.pad) /\ ~WindowRelOK(v, k, o) THEN {"C15-window"} ELSE {})
  ELSE (IF c.d2 /\ ~TopaOK(v, c, r, ro) THEN {"C02-pair"} ELSE {})
       \cup (IF CliBad(ro) THEN {"C02-cli-wiring", "C15-cli-wiring"} ELSE {})
       \cup (IF ro.err = "" /\ ~TopaWrapOK(v, r, ro) THEN {"C15-wrap"} ELSE {})
       \cup (IF c.d2 /\ ro.err = "" /\ HasUntrimmed(v, TRUE) /\ ~TopaDerivedOK(v, r, ro, o.runs[Untrimmed(v, TRUE)]) THEN {"C02-derived"} ELSE {})
       \cup (IF (r.s # -1 \/ r.e # -1) /\ ~r.skipins /\ r.wrap = -1 /\ ~TopaWindowRelOK(v, k, o) THEN {"C15-pair-window"} ELSE {})
Failed(o) ==
  IF o.obs.panic THEN {"panic"} ELSE IF o.obs.timeout THEN {"timeout"} ELSE
  LET c == Ctx(o.vec) IN
  UNION {FailedRun(o.vec, c, k, o.obs) : k \in 1..Len(o.vec.runs)}

(* what kind of block a failing vector has (for known-finding signatures) *)
Sig(o, cl) ==
  LET v == o.vec  B == Groups(v.recs)
      multi == \E g \in 1..Len(B) : Len(B[g]) > 1
      ins == \E i \in 1..Len(v.recs) : \E k \in 1..Len(v.recs[i].cig) : v.recs[i].cig[k][1] = "I"
  IN cl \o ":" \o (IF multi THEN "multi-record" ELSE "single-record") \o (IF ins THEN "+insertion" ELSE "")

Init == l = 1 /\ nbad = 0
Next == /\ l <= Len(Trace)
        /\ LET o == Trace[l]  bad == Failed(o) IN
             /\ \A cl \in bad : Emit(FailFile, [line |-> l, id |-> o.id, clause |-> cl, signature |-> Sig(o, cl)])
             /\ nbad' = nbad + Cardinality(bad)
        /\ l' = l + 1
Post == TLCGet("stats").diameter = Len(Trace) + 1
=============================================================================
