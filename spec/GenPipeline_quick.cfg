INIT Init
NEXT Next
CONSTANTS
  MaxN = 3
  MaxT = 3
INVARIANT EmitInv
CHECK_DEADLOCK FALSE
