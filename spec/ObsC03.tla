------------------------------- MODULE ObsC03 -------------------------------
(* Code -> spec for C03 and the snps part of C13.                             *)
EXTENDS Distance, ObsBase
VARIABLES l, nbad

Rows(o) == o.obs.rows
ExpectRow(v, k) == IF Has(v, "pads") THEN ShiftRow(SnpRow(v.ref, v.qs[k], v.hard), v.pads) ELSE SnpRow(v.ref, v.qs[k], v.hard)

(* ---- C13 on snps: aggregate = per-sequence results, counted --------------- *)
(* rows: the expected per-sequence rows (forced with TLCEval: TLC would otherwise *)
(* re-evaluate the lazy function at every application).                          *)
AggOK(v, rows, n, thr, agg) ==
  LET sets == TLCEval([k \in 1..n |-> {rows[k][j] : j \in 1..Len(rows[k])}])
      all  == TLCEval(UNION {sets[k] : k \in 1..n})
      cnt(s) == Cardinality({k \in 1..n : s \in sets[k]})
      kept == TLCEval({s \in all : IF Has(v, "thr9") THEN Floor9(cnt(s), n) >= v.thr9 ELSE cnt(s) * 1000 >= thr * n})
  IN /\ {agg[i].snp : i \in 1..Len(agg)} = kept
     /\ Len(agg) = Cardinality(kept)
     /\ \A i \in 1..Len(agg) : agg[i].snp \in kept => agg[i].freq = Dec9(cnt(agg[i].snp), n)
     /\ \A i \in 1..(Len(agg) - 1) : agg[i].snp[2] <= agg[i + 1].snp[2]

Failed(o) ==
  IF o.obs.panic THEN {"panic"} ELSE IF o.obs.timeout THEN {"timeout"} ELSE
  LET v == o.vec  r == Rows(o)
      rows == TLCEval([k \in 1..Len(v.qs) |-> ExpectRow(v, k)]) IN
    (IF o.obs.err = "" THEN {} ELSE {"unexpected-error"})
    \cup (IF CliBad(o.obs) THEN {"cli-wiring"} ELSE {})
    \cup (IF o.obs.header = "query,SNPs" THEN {} ELSE {"header"})
    \cup (IF Len(r) = Len(v.qs) /\ \A k \in 1..Len(r) : r[k].qi = k THEN {} ELSE {"row-per-query-in-order"})
    \cup (IF Len(r) = Len(v.qs) /\ \A k \in 1..Len(r) : r[k].snps = rows[k] THEN {} ELSE {"snp-row"})
    \cup (IF v.thr < 0 THEN {}
          ELSE (IF o.obs.aerr = "" /\ o.obs.aheader = "SNP,frequency" THEN {} ELSE {"agg-error"})
               \cup (IF AggOK(v, rows, Len(v.qs), v.thr, o.obs.agg) THEN {} ELSE {"aggregate"})
               \cup (IF CliBadAt(o.obs, "agg_") THEN {"agg-cli-wiring"} ELSE {}))

Init == l = 1 /\ nbad = 0
Next == /\ l <= Len(Trace)
        /\ LET o == Trace[l]  bad == Failed(o) IN
             /\ \A cl \in bad : Emit(FailFile, [line |-> l, id |-> o.id, clause |-> cl, signature |-> cl])
             /\ nbad' = nbad + Cardinality(bad)
        /\ l' = l + 1
Post == TLCGet("stats").diameter = Len(Trace) + 1
=============================================================================
