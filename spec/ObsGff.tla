-------------------------------- MODULE ObsGff --------------------------------
(* Code -> spec for GffScan: what ReadGFF made of every file against the reader *)
(* machine GScan: error class, version, sequence regions, features with their   *)
(* attributes, the ID map and the ##FASTA records.                              *)
EXTENDS GffScan, ObsBase
VARIABLES l, nbad
AttrSet(f) == {<<f.attrs[i][1], f.attrs[i][2]>> : i \in 1..Len(f.attrs)}
FeatOK(f, w) == f.typ = w.typ /\ f.start = w.start /\ f.end = w.end /\ f.strand = w.strand /\ f.phase = w.phase /\ AttrSet(f) = w.attrs /\ f.id = w.id
PairSet(s) == {<<s[i][1], s[i][2]>> : i \in 1..Len(s)}
TripleSet(s) == {<<s[i][1], s[i][2], s[i][3]>> : i \in 1..Len(s)}
Failed(o) ==
  LET want == GScan(o.vec.kinds) IN
  IF o.obs.gpanic THEN {"panic"}
  ELSE IF o.obs.err # want.err THEN {"error-class-" \o want.err \o "-observed-" \o o.obs.err}
  ELSE IF want.err # "" THEN {}
  ELSE (IF o.obs.version = want.version THEN {} ELSE {"version"})
       \cup (IF TripleSet(o.obs.regions) = want.regions THEN {} ELSE {"sequence-regions"})
       \cup (IF Len(o.obs.feats) = Len(want.feats) /\ \A n \in 1..Len(want.feats) : FeatOK(o.obs.feats[n], want.feats[n]) THEN {} ELSE {"features"})
       \cup (IF PairSet(o.obs.idmap) = want.idmap THEN {} ELSE {"id-map"})
       \cup (IF PairSet(o.obs.fasta) = want.fasta /\ o.obs.hasfasta = want.hasfasta THEN {} ELSE {"fasta-section"})
Init == l = 1 /\ nbad = 0
Next == /\ l <= Len(Trace)
        /\ LET o == Trace[l]  bad == Failed(o) IN
             /\ \A cl \in bad : Emit(FailFile, [line |-> l, id |-> o.id, clause |-> cl, signature |-> cl])
             /\ nbad' = nbad + Cardinality(bad)
        /\ l' = l + 1
Post == TLCGet("stats").diameter = Len(Trace) + 1
=============================================================================
