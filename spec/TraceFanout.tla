----------------------------- MODULE TraceFanout -----------------------------
(* Code -> spec for the fan-out commands (closest, closest -n, updown            *)
(* topranking): traces recorded through the verif hooks are checked against      *)
(* Fanout.  Runs are concatenated; each starts with "begin" (the fault that was  *)
(* injected) and ends with "ret".                                                *)
(*   begin  fault                the topology is (re)initialised                 *)
(*   ready  idx                  query goroutine idx is about to report: its     *)
(*                               channel has been closed (it has seen every      *)
(*                               target)                                         *)
(*   recv   idx                  Main has collected the result of query idx:     *)
(*                               Report(idx)                                     *)
(*   ret    err, nw              the entry point returned after nw Write calls   *)
(* WPR (Write calls per query row) is a constant of the run: traces are grouped  *)
(* by it.                                                                        *)
(* Reader, splitter, writes and Main's selects are not logged: TLC infers them.  *)
EXTENDS Integers, Sequences, FiniteSets, TLC, Json, IOUtils
Trace == ndJsonDeserialize(IOEnv.VERIF_OBS)
CONSTANTS Q, NT, Cap, WPR
VARIABLES rd, nxt, ch, closed, sp, q, got, main, nw, rows, fault, faulted, l
F == INSTANCE Fanout WITH Faults <- {"wr"}, IgnoreRowErr <- FALSE, IgnoreHdrErr <- FALSE
fvars == <<rd, nxt, ch, closed, sp, q, got, main, nw, rows, fault, faulted>>
Ev == Trace[l]
IsEv(e) == l <= Len(Trace) /\ Trace[l].ev = e
Consume == l' = l + 1
Start(f) == /\ rd' = "run" /\ nxt' = 0 /\ ch' = <<>> /\ closed' = FALSE
            /\ sp' = [st |-> "recv", tgt |-> -1, j |-> 1]
            /\ q' = [i \in 1..Q |-> [seen |-> 0, st |-> "run"]]
            /\ got' = {} /\ main' = "waitRead" /\ nw' = 0 /\ rows' = <<>>
            /\ fault' = f /\ faulted' = FALSE
Init == /\ Trace[1].ev = "begin" /\ l = 2 /\ TLCSet(1, 2)
        /\ rd = "run" /\ nxt = 0 /\ ch = <<>> /\ closed = FALSE
        /\ sp = [st |-> "recv", tgt |-> -1, j |-> 1]
        /\ q = [i \in 1..Q |-> [seen |-> 0, st |-> "run"]]
        /\ got = {} /\ main = "waitRead" /\ nw = 0 /\ rows = <<>>
        /\ fault = Trace[1].fault /\ faulted = FALSE
TReset == IsEv("begin") /\ Start(Ev.fault) /\ Consume
TReady == IsEv("ready") /\ Consume /\ q[Ev.idx + 1].st = "reporting" /\ UNCHANGED fvars
TRecv  == IsEv("recv") /\ Consume /\ F!Report(Ev.idx + 1)
TRet   == /\ IsEv("ret") /\ Consume /\ UNCHANGED fvars
          /\ (Ev.err <=> main = "retErr") /\ (~Ev.err => main = "retNil")
          /\ Ev.nw = nw
TPost  == main = "retErr" /\ (IsEv("ready") \/ IsEv("recv")) /\ Consume /\ UNCHANGED fvars
Silent == /\ UNCHANGED l /\ F!Alive
          /\ (F!ReaderSend \/ F!ReaderErr \/ F!ReaderDone \/ F!SplitRecv \/ F!SplitSend \/ F!SplitClose \/ F!SplitDone \/ F!Write \/ F!MainRecvErr)
Next == TReset \/ TReady \/ TRecv \/ TRet \/ TPost \/ Silent
Mark == /\ TLCSet(1, IF l > TLCGet(1) THEN l ELSE TLCGet(1))
        /\ (IF l = Len(Trace) + 1 THEN TLCSet("exit", TRUE) ELSE TRUE)
Post == PrintT(<<"HWM", TLCGet(1), Len(Trace)>>) /\ TLCGet(1) = Len(Trace) + 1
DoneOK == F!DoneOK
EveryTargetToEveryQuery == F!EveryTargetToEveryQuery
ErrSafety == F!ErrSafety
=============================================================================
