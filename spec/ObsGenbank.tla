------------------------------ MODULE ObsGenbank ------------------------------
(* Code -> spec for GenbankScan: what ReadGenBank made of every table, against  *)
(* the reader machine Scan - panic for panic, feature for feature, qualifier    *)
(* for qualifier (the empty-key entries included) - and the ORIGIN letters.     *)
EXTENDS GenbankScan, ObsBase
VARIABLES l, nbad
InfoSet(f) == {<<f.info[i][1], f.info[i][2]>> : i \in 1..Len(f.info)}
Failed(o) ==
  LET want == Scan(o.vec.kinds) IN
  IF want.panic # o.obs.gpanic THEN {IF want.panic THEN "panic-expected" ELSE "panic-unexpected"}
  ELSE IF want.panic THEN {}
  ELSE (IF o.obs.err = "" THEN {} ELSE {"error"})
       \cup (IF Len(o.obs.feats) = Len(want.feats) THEN {} ELSE {"feature-count"})
       \cup (IF Len(o.obs.feats) = Len(want.feats) /\ \A n \in 1..Len(want.feats) :
                   o.obs.feats[n].feat = want.feats[n].feat /\ o.obs.feats[n].loc = want.feats[n].loc THEN {} ELSE {"feature-line"})
       \cup (IF Len(o.obs.feats) = Len(want.feats) /\ \A n \in 1..Len(want.feats) : InfoSet(o.obs.feats[n]) = want.feats[n].info THEN {} ELSE {"qualifiers"})
       \cup (IF o.obs.origin = "acgtacgtacgt" THEN {} ELSE {"origin"})
Init == l = 1 /\ nbad = 0
Next == /\ l <= Len(Trace)
        /\ LET o == Trace[l]  bad == Failed(o) IN
             /\ \A cl \in bad : Emit(FailFile, [line |-> l, id |-> o.id, clause |-> cl, signature |-> cl])
             /\ nbad' = nbad + Cardinality(bad)
        /\ l' = l + 1
Post == TLCGet("stats").diameter = Len(Trace) + 1
=============================================================================
