---------------------------- MODULE FirstRecord ----------------------------
(***************************************************************************)
(* `variants --msa stdin --reference <id>`: the reference is the first      *)
(* record of the pipe.  Before the workers are started Main takes it with   *)
(*      select { case ref = <-cMSA: ...  case err := <-cErr: ...            *)
(*               case <-cMSADone: "is the pipe to --msa empty?" }           *)
(* while the reader goroutine fills cMSA (buffered, capacity Cap) and then  *)
(* offers `done` on an unbuffered channel.  An alignment that fits in the   *)
(* buffer lets the reader reach `done` before the select runs: two cases    *)
(* are ready and Go picks either (DESIGN.md section 9, F18).                *)
(*                                                                          *)
(* AsCoded = TRUE is the select as it was; FALSE is the repaired one: on    *)
(* `done`, a waiting record is taken and the completion is handed on (a     *)
(* goroutine re-offers it) to the loop that later closes the channel.       *)
(* One action per step of the code; the later stages of the pipeline are    *)
(* Pipeline.tla's business - here the workers are just a consumer that      *)
(* starts once Main has the reference.                                      *)
(***************************************************************************)
EXTENDS Integers, Sequences, FiniteSets, TLC
CONSTANTS MaxN, MaxCap, AsCoded
VARIABLES N,          \* records in the pipe (0 = empty pipe); record 0 is the reference     } fixed in Init: every pipe of up to
          Cap,        \* capacity of cMSA                                                    } MaxN records, every capacity up to
          BadAt,      \* the reader meets an invalid record at this index (-1 = never)       } MaxCap, every place for a bad record
          ch,         \* cMSA
          rd,         \* reader: "run" | "offerDone" | "blockedErr" | "exit"
          nxt,
          relay,      \* the goroutine that re-offers `done`: "none" | "offer" | "exit"
          main,       \* "first" | "loop" | "closed" | "errEmpty" | "errRead" | "errNotFirst"
          ref,        \* the record Main took as the reference (-1 = none)
          taken       \* records consumed by the workers, in order
vars == <<N, Cap, BadAt, ch, rd, nxt, relay, main, ref, taken>>
Fix == UNCHANGED <<N, Cap, BadAt>>

Init == N \in 0..MaxN /\ Cap \in 1..MaxCap /\ BadAt \in -1..(MaxN - 1) /\ ch = <<>> /\ rd = "run" /\ nxt = 0 /\ relay = "none" /\ main = "first" /\ ref = -1 /\ taken = <<>>

(* ---- reader: fastaio.ReadEncodeAlignment ----------------------------------------------- *)
ReaderSend == /\ rd = "run" /\ nxt < N /\ nxt # BadAt /\ Len(ch) < Cap
              /\ ch' = Append(ch, nxt) /\ nxt' = nxt + 1
              /\ UNCHANGED <<rd, relay, main, ref, taken>>
ReaderBad  == /\ rd = "run" /\ nxt < N /\ nxt = BadAt
              /\ rd' = "blockedErr" /\ UNCHANGED <<ch, nxt, relay, main, ref, taken>>
ReaderEnd  == /\ rd = "run" /\ nxt = N /\ N > 0           \* cdone <- true (blocks until Main receives)
              /\ rd' = "offerDone" /\ UNCHANGED <<ch, nxt, relay, main, ref, taken>>
ReaderEmpty == /\ rd = "run" /\ N = 0                     \* "empty fasta file" on the error channel
               /\ rd' = "blockedErr" /\ UNCHANGED <<ch, nxt, relay, main, ref, taken>>

(* ---- Main: the select that takes the reference -------------------------------------------- *)
TakeRef(next) == /\ ref' = Head(ch) /\ ch' = Tail(ch) /\ main' = next
FirstRecord == /\ main = "first" /\ ch # <<>>
               /\ TakeRef("loop") /\ UNCHANGED <<rd, nxt, relay, taken>>
FirstErr    == /\ main = "first" /\ rd = "blockedErr"
               /\ main' = "errRead" /\ rd' = "exit" /\ UNCHANGED <<ch, nxt, relay, ref, taken>>
FirstDone   == /\ main = "first" /\ rd = "offerDone"
               /\ rd' = "exit"
               /\ IF AsCoded \/ ch = <<>>
                  THEN main' = "errEmpty" /\ UNCHANGED <<ch, relay, ref>>
                  ELSE TakeRef("loop") /\ relay' = "offer"            \* go func() { cMSADone <- true }()
               /\ UNCHANGED <<nxt, taken>>

(* ---- after the reference: workers drain cMSA; Main's loop closes it on `done` -------------- *)
Work      == /\ main \in {"loop", "closed"} /\ ch # <<>>
             /\ taken' = Append(taken, Head(ch)) /\ ch' = Tail(ch)
             /\ UNCHANGED <<rd, nxt, relay, main, ref>>
LoopDone  == /\ main = "loop" /\ (rd = "offerDone" \/ relay = "offer")
             /\ main' = "closed"
             /\ IF rd = "offerDone" THEN rd' = "exit" /\ relay' = relay ELSE relay' = "exit" /\ rd' = rd
             /\ UNCHANGED <<ch, nxt, ref, taken>>
LoopErr   == /\ main = "loop" /\ rd = "blockedErr"
             /\ main' = "errRead" /\ rd' = "exit" /\ UNCHANGED <<ch, nxt, relay, ref, taken>>

Next == (ReaderSend \/ ReaderBad \/ ReaderEnd \/ ReaderEmpty \/ FirstRecord \/ FirstErr \/ FirstDone \/ Work \/ LoopDone \/ LoopErr) /\ Fix
Spec == Init /\ [][Next]_vars /\ WF_vars(Next)

(* ---- properties ------------------------------------------------------------------------------ *)
Done == main \in {"closed", "errEmpty", "errRead", "errNotFirst"} /\ (main = "closed" => ch = <<>> /\ rd = "exit")
EmptyOnlyIfEmpty == main = "errEmpty" => N = 0                 \* F18: refuted with AsCoded = TRUE
ReadErrOnlyIfBad == main = "errRead" => (BadAt \in 0..(N - 1) \/ N = 0)
RefIsFirst       == ref # -1 => ref = 0
AllDelivered     == (main = "closed" /\ ch = <<>>) => taken = [i \in 1..(N - 1) |-> i]
NoGoroutineLeft  == (main = "closed" /\ ch = <<>>) => relay # "offer" /\ rd = "exit"     \* the relay's offer is consumed exactly once
Termination      == <>[](main \in {"closed", "errEmpty", "errRead"} /\ (main = "closed" => ch = <<>>))
=============================================================================
