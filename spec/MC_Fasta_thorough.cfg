SPECIFICATION Spec
CONSTANT MaxLines = 5
INVARIANT ValidInv
INVARIANT StrictInv
INVARIANT TotalInv
INVARIANT BlankInv
CHECK_DEADLOCK FALSE
