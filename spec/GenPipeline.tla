----------------------------- MODULE GenPipeline -----------------------------
(* Spec -> code for C12: every delivery order (the order in which records      *)
(* reach the writer) that the pipeline model can produce for N records and T   *)
(* workers, per command topology.  The harness imposes each one on the real    *)
(* worker pool through the gate hook.                                          *)
EXTENDS Integers, Sequences, FiniteSets, TLC, GenBase
CONSTANTS MaxN, MaxT
Variant == "intended"
VARIABLES cfg, rd, nxt, chIn, closedIn, w1, w2, chMid, closedMid, chOut, closedOut, wr, written, main, faulted, deliv, s1ord
M == INSTANCE MCPipeline
Cmd(name) == CASE name = "toMultiAlign" -> "toma" [] name = "toPairAlign" -> "topa" [] name = "samVariants" -> "samvar"
               [] name = "variants" -> "variants" [] name = "variantsRef" -> "variantsref" [] name = "snps" -> "snps" [] name = "updownList" -> "udlist"
RealT(c) == IF c.name \in {"snps", "updownList"} THEN c.N ELSE c.T       \* those two size their pool with NumCPU >= N
Init == /\ \E nm \in M!Names, t \in {2, MaxT} :
             LET c0 == M!Topo(nm, MaxN, t)
                 c == [c0 EXCEPT !.T = RealT(c0)]
             IN M!InitWith(M!WithFault(c, [kind |-> "none", at |-> 0]))
        /\ deliv = <<>> /\ s1ord = <<>>
(* the stage-1 worker whose record was handed on in this step (two-stage pipelines), if any *)
Handed == {t \in M!Workers(cfg) : w1[t].st = "ready" /\ w1'[t].st = "idle"}
Next == /\ M!Next
        /\ deliv' = IF wr.st = "got" /\ wr'.st = "flush" THEN Append(deliv, wr.last) ELSE deliv
        /\ s1ord' = IF cfg.Stages = 2 /\ Handed # {} THEN Append(s1ord, w1[CHOOSE t \in Handed : TRUE].rec) ELSE s1ord
EmitInv == main = "retNil" =>
   EmitVec([id |-> "gate-" \o Cmd(cfg.name) \o "-" \o ToString(cfg.T) \o "-" \o ToString(deliv) \o ToString(s1ord), cmd |-> Cmd(cfg.name),
            N |-> cfg.N - Cardinality(cfg.Skip), T |-> cfg.T, mode |-> "gate", order |-> deliv, order1 |-> s1ord])       \* N counts the query records; order1: stage-1 hand-off order (two stages)
=============================================================================
