CONSTANT MaxLines = 3
INIT Init
NEXT Next
INVARIANTS VersionAlways BlankTolerated TrailingSemicolon HyphenInSeqid
CHECK_DEADLOCK FALSE
