CONSTANTS MaxDepth = 2  MaxKids = 2
  Leaves <- LeavesSmall
INIT Init
NEXT Next
INVARIANTS NoSilentLoss NoPanic StrandByOrderOK
CHECK_DEADLOCK FALSE
