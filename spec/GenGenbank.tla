------------------------------ MODULE GenGenbank ------------------------------
(* Spec -> code for GenbankScan: every table of <= 4 (thorough 5) line kinds.  *)
EXTENDS GenbankScan, GenBase
N == IF Thorough THEN 5 ELSE 4
RECURSIVE Name(_, _)
Name(ls, i) == IF i > Len(ls) THEN "" ELSE ls[i] \o Name(ls, i + 1)
VARIABLE v
Init == v \in UNION {[1..n -> Kinds] : n \in 1..N}
Next == UNCHANGED v
EmitInv == EmitVec([id |-> Name(v, 1), kinds |-> v, lines |-> [i \in 1..Len(v) |-> K[v[i]].text]])
=============================================================================
