INIT Init
NEXT Next
CONSTRAINT Mark
INVARIANT OrderInv
INVARIANT DoneOK
INVARIANT ErrSafety
INVARIANT NoSendOnClosed
POSTCONDITION Post
CHECK_DEADLOCK FALSE
