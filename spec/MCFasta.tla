------------------------------- MODULE MCFasta -------------------------------
(* The line scanner shared by the FASTA readers, stepped line by line over      *)
(* every stream of <= MaxLines lines over the 13 line kinds: a valid stream     *)
(* yields exactly Records(lines); a stream in one of the statement's error      *)
(* classes ends in an error; every stream ends in records or an error (total).  *)
EXTENDS FastaScan
CONSTANTS MaxLines
VARIABLES ls, i, st, pc
vars == <<ls, i, st, pc>>
Init == ls \in UNION {[1..n -> Kinds] : n \in 0..MaxLines} /\ i = 1 /\ st = ScanInit /\ pc = "scan"
Line(P(_)) == pc = "scan" /\ i <= Len(ls) /\ P(ls[i]) /\ st' = LineStep(st, ls[i]) /\ i' = i + 1 /\ UNCHANGED <<ls, pc>>
LineBlank  == Line(LAMBDA k : k = "bl")
LineHeader == Line(LAMBDA k : IsHeader(k) /\ HasId(k))
LineHeaderNoId == Line(LAMBDA k : IsHeader(k) /\ ~HasId(k))
LineSeq    == Line(LAMBDA k : IsSeq(k) /\ ~Bad(k))
LineBadSym == Line(LAMBDA k : Bad(k))
AtEof      == pc = "scan" /\ i = Len(ls) + 1 /\ st' = Eof(st) /\ pc' = "done" /\ UNCHANGED <<ls, i>>
Next == LineBlank \/ LineHeader \/ LineHeaderNoId \/ LineSeq \/ LineBadSym \/ AtEof
Spec == Init /\ [][Next]_vars
ValidInv == (pc = "done" /\ Class(ls) = "Valid") => st.err = "" /\ st.recs = Records(ls)
StrictInv == (pc = "done" /\ ErrorClass(Class(ls))) => st.err # ""
TotalInv == pc = "done" => (st.err # "" \/ Len(st.recs) >= 1)
BlankInv == (pc = "done" /\ Class(NonBlank(ls)) = "Valid") => st.err = "" /\ st.recs = Records(NonBlank(ls))   \* blank lines are layout
=============================================================================
