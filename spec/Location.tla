------------------------------ MODULE Location ------------------------------
(***************************************************************************)
(* GenBank feature locations (pkg/genbank/location.go) - an extension of   *)
(* the specification beyond the listed properties: C04 and C14 rest on the  *)
(* positions a CDS location denotes.                                        *)
(*                                                                          *)
(* A location is a tree:   <<"r", a, b>>   a..b                             *)
(*                         <<"n", a>>      a          (a single base)       *)
(*                         <<"p", a, b>>   <a..b      (5'-partial range)    *)
(*                         <<"j", kids>>   join(k1,k2,...)                  *)
(*                         <<"c", kids>>   complement(k1,...)               *)
(* Den(t) is what the feature table definition says it denotes (the list of *)
(* 1-based positions in reading order).  Parse(t) is what GetPositions does *)
(* - transcribed branch by branch, including the branches on which it       *)
(* refuses (class "error") and the ones on which it indexes out of range    *)
(* (class "panic"): those are named deviations, not idealised away.         *)
(* MCLocation checks  Parse(t).class = "ok" => Parse(t).pos = Den(t)  for   *)
(* every tree without partial ranges, and that the documented forms         *)
(* (Documented) are all accepted; conformance replays every tree through    *)
(* the real parser and compares class, positions and IsReverse.             *)
(***************************************************************************)
EXTENDS Integers, Sequences, FiniteSets, TLC

Kind(t) == t[1]
IsLeaf(t) == Kind(t) \in {"r", "n", "p"}
Kids(t) == t[2]
RECURSIVE Depth(_)
Depth(t) == IF IsLeaf(t) THEN 0
            ELSE 1 + (LET ds == {Depth(Kids(t)[i]) : i \in 1..Len(Kids(t))} IN CHOOSE d \in ds : \A e \in ds : e <= d)
Span(a, b) == [i \in 1..(IF b >= a THEN b - a + 1 ELSE 0) |-> a + i - 1]
Rev(s) == [i \in 1..Len(s) |-> s[Len(s) + 1 - i]]
RECURSIVE Cat(_, _)
Cat(ss, i) == IF i > Len(ss) THEN <<>> ELSE ss[i] \o Cat(ss, i + 1)

(* the text of a location *)
RECURSIVE Text(_)
RECURSIVE TextList(_, _)
Text(t) == CASE Kind(t) = "r" -> ToString(t[2]) \o ".." \o ToString(t[3])
             [] Kind(t) = "p" -> "<" \o ToString(t[2]) \o ".." \o ToString(t[3])
             [] Kind(t) = "n" -> ToString(t[2])
             [] Kind(t) = "j" -> "join(" \o TextList(Kids(t), 1) \o ")"
             [] Kind(t) = "c" -> "complement(" \o TextList(Kids(t), 1) \o ")"
TextList(ks, i) == IF i > Len(ks) THEN "" ELSE Text(ks[i]) \o (IF i < Len(ks) THEN "," ELSE "") \o TextList(ks, i + 1)

(* ---- the definition ------------------------------------------------------ *)
RECURSIVE Den(_)
Den(t) == CASE Kind(t) = "r" -> Span(t[2], t[3])
            [] Kind(t) = "p" -> Span(t[2], t[3])
            [] Kind(t) = "n" -> <<t[2]>>
            [] Kind(t) = "j" -> Cat([i \in 1..Len(Kids(t)) |-> Den(Kids(t)[i])], 1)
            [] Kind(t) = "c" -> Rev(Cat([i \in 1..Len(Kids(t)) |-> Den(Kids(t)[i])], 1))
RECURSIVE WellFormed(_)
WellFormed(t) == CASE Kind(t) \in {"r", "p"} -> t[2] <= t[3]
                   [] Kind(t) = "n" -> TRUE
                   [] Kind(t) = "j" -> Len(Kids(t)) >= 1 /\ \A i \in 1..Len(Kids(t)) : WellFormed(Kids(t)[i])
                   [] Kind(t) = "c" -> Len(Kids(t)) = 1 /\ WellFormed(Kids(t)[1])
RECURSIVE HasKind(_, _)
HasKind(t, k) == Kind(t) = k \/ (~IsLeaf(t) /\ \E i \in 1..Len(Kids(t)) : HasKind(Kids(t)[i], k))

(* ---- the parser, branch by branch ------------------------------------------ *)
Ok(p) == [class |-> "ok", pos |-> p]
Err == [class |-> "error", pos |-> <<>>]
Panic == [class |-> "panic", pos |-> <<>>]

(* posFromJoin on join(k1,...,kn) with leaf kids: the first kid that is not a plain range decides *)
RECURSIVE JoinWalk(_, _, _)
JoinWalk(ks, i, acc) ==
  IF i > Len(ks) THEN Ok(acc)
  ELSE CASE Kind(ks[i]) = "r" -> JoinWalk(ks, i + 1, acc \o Span(ks[i][2], ks[i][3]))
         [] Kind(ks[i]) = "n" -> Panic               \* Split(f, "..")[1] of a single number
         [] Kind(ks[i]) = "p" -> Err                 \* Atoi("<a")
(* posFromComp on complement(k1,...,kn) with leaf kids: the text between the parentheses is split on ".." *)
CompSimple(ks) ==
  IF Len(ks) = 1
  THEN CASE Kind(ks[1]) = "r" -> Ok(Rev(Span(ks[1][2], ks[1][3])))
         [] Kind(ks[1]) = "n" -> Panic
         [] Kind(ks[1]) = "p" -> Err
  ELSE CASE Kind(ks[1]) = "p" -> Err                 \* Atoi("<a")
         [] Kind(ks[1]) = "n" -> Err                 \* "5,1..3" -> Atoi("5,1")
         [] Kind(ks[1]) = "r" -> Err                 \* "1..3,5..7" -> Atoi("3,5")
Simple(t) == IF Kind(t) = "j" THEN JoinWalk(Kids(t), 1, <<>>) ELSE CompSimple(Kids(t))

(* unNestRecur on a list of fields: result = a list of position lists, or error, or panic *)
RECURSIVE UnNest(_, _, _)
UnNest(fs, i, acc) ==
  IF i > Len(fs) THEN [class |-> "ok", res |-> acc]
  ELSE LET f == fs[i] IN
       IF IsLeaf(f) THEN [class |-> "panic", res |-> <<>>]         \* a bare range/number as a field: f[0:4] of "" (or of a short f)
       ELSE IF Depth(f) = 1
       THEN LET s == Simple(f) IN                                   \* pos, _ := posFromJoin / posFromComp: the error is dropped
            IF s.class = "panic" THEN [class |-> "panic", res |-> <<>>]
            ELSE UnNest(fs, i + 1, Append(acc, s.pos))
       ELSE LET inner == UnNest(Kids(f), 1, <<>>) IN
            IF inner.class # "ok" THEN inner
            ELSE IF Kind(f) = "j" THEN UnNest(fs, i + 1, Append(acc, Cat(inner.res, 1)))
            ELSE IF Len(inner.res) # 1 THEN [class |-> "error", res |-> <<>>]
            ELSE UnNest(fs, i + 1, Append(acc, Rev(inner.res[1])))

Parse(t) ==
  IF Depth(t) >= 2
  THEN LET r == UnNest(<<t>>, 1, <<>>) IN
       IF r.class = "panic" THEN Panic ELSE IF r.class = "error" \/ Len(r.res) # 1 THEN Err ELSE Ok(r.res[1])
  ELSE CASE Kind(t) = "r" -> Ok(Span(t[2], t[3]))
         [] Kind(t) = "n" -> Err
         [] Kind(t) = "p" -> Err
         [] OTHER -> Simple(t)
(* IsReverse.  The strand of a location is given by the complement() operators above its spans: Parity(t) is the set of  *)
(* complement-parities of its leaves ({0} forward, {1} reverse, {0,1} mixed strands).  The reader looks at the operators   *)
(* in front of the first span (Reverse).  Before the repair 5b7600f it compared the first and the last position            *)
(* (ReverseByOrder): a forward join that runs across the origin of a circular genome, join(8..9,2..4), was taken for the  *)
(* reverse strand, and a location denoting nothing indexed an empty list.                                                  *)
RECURSIVE Parity(_, _)
Parity(t, p) == IF IsLeaf(t) THEN {p}
                ELSE UNION {Parity(Kids(t)[i], IF Kind(t) = "c" THEN 1 - p ELSE p) : i \in 1..Len(Kids(t))}
RECURSIVE FirstParity(_, _)
FirstParity(t, p) == IF IsLeaf(t) THEN p ELSE FirstParity(Kids(t)[1], IF Kind(t) = "c" THEN 1 - p ELSE p)
Reverse(t) == LET p == Parse(t) IN
              IF p.class # "ok" THEN p.class ELSE IF FirstParity(t, 0) = 1 THEN "reverse" ELSE "forward"
ReverseByOrder(t) == LET p == Parse(t) IN
              IF p.class # "ok" THEN p.class ELSE IF Len(p.pos) = 0 THEN "panic" ELSE IF p.pos[1] > p.pos[Len(p.pos)] THEN "reverse" ELSE "forward"

(* ---- the forms the documentation of `variants` promises to read ------------- *)
AllRanges(ks) == \A i \in 1..Len(ks) : Kind(ks[i]) = "r"
RECURSIVE OpsOnly(_)
OpsOnly(t) == /\ ~IsLeaf(t)
              /\ IF Depth(t) = 1 THEN AllRanges(Kids(t)) ELSE \A i \in 1..Len(Kids(t)) : OpsOnly(Kids(t)[i])
Documented(t) == WellFormed(t) /\ (Kind(t) = "r" \/ OpsOnly(t))
=============================================================================
