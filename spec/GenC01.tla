------------------------------- MODULE GenC01 -------------------------------
(* Spec -> code for C01 / C02 / C15: (a) every SAM-valid CIGAR of <= MaxOps    *)
(* operations over the nine operators with lengths 1..2 at POS 0..2 as a        *)
(* one-record query; (b) blocks of two and three records from a menu of        *)
(* shapes (overlapping, abutting, disjoint, agreeing and conflicting, with     *)
(* insertions at the start, the end and next to deletions), interleaved with   *)
(* unmapped and secondary records and a second query.  Every vector is run     *)
(* under nine option sets (pad, window, wrap, threads, skip-insertions,        *)
(* omit-reference) chosen from a hash of the vector.                           *)
EXTENDS Sam, GenBase
CONSTANTS MaxOps, L
Pattern == <<"A","C","G","T","T","G","C","A","A","G","C","T","C","A","G","T","G","G","A","C">>
RefPat  == <<"T","T","G","A","C","C","A","G","T","C","A","G">>
Ref == SubSeq(RefPat, 1, L)
OpLen == Ops \X (1..2)
Cigars == UNION {[1..n -> OpLen] : n \in 1..MaxOps}
Rot(k, n) == [i \in 1..n |-> Pattern[((i + k - 1) % Len(Pattern)) + 1]]
RECURSIVE HashC(_, _)
HashC(c, k) == IF k = 0 THEN 7 ELSE (HashC(c, k - 1) * 31 + c[k][2] * 11 + (CASE c[k][1] = "M" -> 1 [] c[k][1] = "I" -> 2 [] c[k][1] = "D" -> 3
                 [] c[k][1] = "N" -> 4 [] c[k][1] = "S" -> 5 [] c[k][1] = "H" -> 6 [] c[k][1] = "P" -> 7 [] c[k][1] = "=" -> 8 [] OTHER -> 9)) % 100003
Run(cmd, pad, s, e, w, t, skip, omit) == [cmd |-> cmd, pad |-> pad, s |-> s, e |-> e, wrap |-> w, t |-> t, skipins |-> skip, omitref |-> omit]
RunsN(h, n) ==
  LET s0 == (h % L) + 1  e0 == ((h \div 7) % L) + 1
      s == IF s0 <= e0 THEN s0 ELSE e0   e == IF s0 <= e0 THEN e0 ELSE s0
      w == ((h \div 3) % 4) + 1
  IN << Run("toma", FALSE, -1, -1, -1, 1, FALSE, FALSE), Run("toma", TRUE, -1, -1, -1, 1, FALSE, FALSE),
        Run("toma", FALSE, s, e, -1, 2, FALSE, FALSE), Run("toma", TRUE, s, e, -1, 1, FALSE, FALSE),
        Run("toma", FALSE, -1, -1, w, 3, FALSE, FALSE),
        Run("toma", FALSE, s, -1, -1, 1, FALSE, FALSE), Run("toma", TRUE, -1, e, -1, 1, FALSE, FALSE),
        Run("topa", FALSE, -1, -1, -1, 1, FALSE, FALSE), Run("topa", FALSE, s, e, -1, 2, FALSE, FALSE),
        Run("topa", FALSE, -1, -1, -1, 1, TRUE, FALSE), Run("topa", FALSE, s, e, w, 1, FALSE, TRUE),
        Run("topa", FALSE, s, e, -1, 1, TRUE, FALSE),
        Run("topa", FALSE, 1, n, -1, 1, FALSE, FALSE), Run("topa", FALSE, 1, -1, -1, 2, FALSE, FALSE), Run("topa", FALSE, -1, n, -1, 1, FALSE, FALSE),
        Run("samvar", FALSE, -1, -1, -1, 2, FALSE, FALSE), Run("topavar", FALSE, -1, -1, -1, 1, FALSE, FALSE),
        Run("tomavar", FALSE, -1, -1, -1, 2, FALSE, FALSE) >>
Runs(h) == RunsN(h, L)
Rec(qn, flag, p, c, rot) == [q |-> qn, flag |-> flag, pos |-> p, cig |-> c, seq |-> Rot(rot, QryLen(c))]
CigStr(c) == LET RECURSIVE S(_) S(k) == IF k = 0 THEN "" ELSE S(k - 1) \o ToString(c[k][2]) \o c[k][1] IN S(Len(c))

Single == {[id |-> "one-" \o ToString(p) \o "-" \o CigStr(c), ref |-> Ref, recs |-> <<Rec(0, 0, p, c, 0)>>, runs |-> Runs(HashC(c, Len(c)) + p)]
           : c \in {c \in Cigars : SamValid(c, QryLen(c)) /\ QryLen(c) <= 16}, p \in 0..2} 
SingleFit == {v \in Single : v.recs[1].pos + RefSpan(v.recs[1].cig) <= L}

Menu == << <<0, <<<<"M", 3>>>> >>, <<2, <<<<"M", 2>>, <<"D", 1>>, <<"M", 1>>>> >>, <<4, <<<<"M", 1>>, <<"I", 2>>, <<"M", 2>>>> >>,
           <<1, <<<<"S", 1>>, <<"M", 2>>, <<"N", 1>>, <<"M", 2>>>> >>, <<5, <<<<"M", 3>>>> >>, <<3, <<<<"M", 2>>>> >>,
           <<6, <<<<"I", 1>>, <<"M", 2>>>> >>, <<0, <<<<"H", 1>>, <<"M", 2>>, <<"I", 1>>, <<"M", 1>>, <<"H", 1>>>> >>,
           <<3, <<<<"M", 1>>, <<"P", 1>>, <<"I", 1>>, <<"M", 1>>>> >>, <<2, <<<<"M", 2>>, <<"I", 1>>>> >>,
           <<4, <<<<"D", 1>>, <<"M", 1>>, <<"I", 1>>, <<"D", 1>>, <<"M", 1>>>> >> >>
MRec(qn, flag, m, rot) == Rec(qn, flag, Menu[m][1], Menu[m][2], rot)
Pair == {[id |-> "two-" \o ToString(a) \o "-" \o ToString(b) \o "-" \o ToString(z),
          ref |-> SubSeq(RefPat, 1, 8),
          recs |-> <<MRec(0, 0, a, 0), MRec(0, 256, ((a + b) % Len(Menu)) + 1, 5), MRec(0, 2048, b, IF z = 1 THEN 0 ELSE 3),
                     MRec(1, 4, a, 1), MRec(1, 16, z, 7)>>,
          runs |-> RunsN(a * 37 + b * 101 + z, 8)] : a \in 1..Len(Menu), b \in 1..Len(Menu), z \in {1, 3}}
Triple == {[id |-> "three-" \o ToString(a) \o "-" \o ToString(b) \o "-" \o ToString(c),
          ref |-> SubSeq(RefPat, 1, 8),
          recs |-> <<MRec(0, 0, a, 0), MRec(0, 2048, b, 0), MRec(0, 2064, c, 0)>>,
          runs |-> RunsN(a * 37 + b * 101 + c * 13, 8)] : a \in {1, 8, 10}, b \in {3, 7, 9, 11}, c \in {5, 6, 2}}
(* every window of an 8-base reference x every wrap width up to (and beyond) the width of the windowed row, for both commands *)
WWRuns(s, e) ==
  LET n == e - s + 4 IN
  [k \in 1..(4 * n) |-> LET w == ((k - 1) \div 4) + 1  var == (k - 1) % 4 IN
     CASE var = 0 -> Run("toma", FALSE, s, e, w, 1, FALSE, FALSE) [] var = 1 -> Run("toma", TRUE, s, e, w, 2, FALSE, FALSE)
       [] var = 2 -> Run("topa", FALSE, s, e, w, 1, FALSE, FALSE) [] var = 3 -> Run("topa", FALSE, s, e, w, 1, TRUE, TRUE)]
WrapWin == UNION {{[id |-> "wrapwin-" \o ToString(s) \o "-" \o ToString(e) \o "-" \o ToString(ab[1]), ref |-> SubSeq(RefPat, 1, 8),
                     recs |-> <<MRec(0, 0, ab[1], 0), MRec(0, 2048, ab[2], 3), MRec(1, 0, 2, 1)>>, runs |-> WWRuns(s, e)]
                    : e \in s..8, ab \in {<<3, 6>>, <<1, 5>>}} : s \in 1..8}
VARIABLE v
Init == v \in SingleFit \cup Pair \cup Triple \cup WrapWin
Next == UNCHANGED v
EmitInv == EmitVec(v)
=============================================================================
