----------------------------- MODULE ObsLocation -----------------------------
(* Code -> spec for Location: the class (ok / error / panic), the positions   *)
(* and the strand the real parser reported for every tree, against Parse and  *)
(* Reverse.                                                                   *)
EXTENDS Location, ObsBase
VARIABLES l, nbad
Failed(o) ==
  LET t == o.vec.tree  p == Parse(t) IN
    (IF o.obs.class = p.class THEN {} ELSE {"class-" \o p.class \o "-observed-" \o o.obs.class})
    \cup (IF o.obs.class = "ok" /\ p.class = "ok" /\ o.obs.pos # p.pos THEN {"positions"} ELSE {})
    \cup (IF o.obs.rev = Reverse(t) THEN {} ELSE {"strand"})
Init == l = 1 /\ nbad = 0
Next == /\ l <= Len(Trace)
        /\ LET o == Trace[l]  bad == Failed(o) IN
             /\ \A cl \in bad : Emit(FailFile, [line |-> l, id |-> o.id, clause |-> cl, signature |-> cl])
             /\ nbad' = nbad + Cardinality(bad)
        /\ l' = l + 1
Post == TLCGet("stats").diameter = Len(Trace) + 1
=============================================================================
