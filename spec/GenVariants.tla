----------------------------- MODULE GenVariants -----------------------------
(* Spec -> code for C04 / C05 / C11 / C13 / C14 / C15(filter).                  *)
(* (a) annotation vectors: a 30-base genome with a forward gene (4..15), a      *)
(*     reverse gene (19..30), stop codons at the end of both; TLC enumerates    *)
(*     feature layouts from a menu (single, joined with a gap, joined with      *)
(*     segments that are not multiples of three, reverse single / joined in     *)
(*     both GenBank spellings, a mature peptide inside a gene, codon_start 2,   *)
(*     an unnamed GFF CDS with a named peptide) x reference gapping; each       *)
(*     vector carries every single-site change (next base, IUPAC code, N, gap)  *)
(*     of every position, double changes inside codons, and insertions.         *)
(* (b) indel vectors: every column-class string over {both-gap, ins, del, base} *)
(*     of length <= MaxCls, as a three-sequence alignment (reference, query,    *)
(*     and a sequence that owns the both-gap columns).                          *)
EXTENDS Alphabet, GenBase, SequencesExt
CONSTANTS MaxCls
Str2Seq(s) == s      \* (sequences are written out below)
Genome == <<"T","T","G", "A","T","G","G","C","T","A","A","A","T","A","A", "G","G","C",
            "T","C","A","C","C","C","G","G","G","C","A","T">>
NextBase(b) == CASE b = "A" -> "C" [] b = "C" -> "G" [] b = "G" -> "T" [] b = "T" -> "A"
Amb(b) == CASE b = "A" -> "Y" [] b = "C" -> "R" [] b = "G" -> "Y" [] b = "T" -> "R"      \* incompatible two-base code
AmbCompat(b) == CASE b = "A" -> "R" [] b = "C" -> "Y" [] b = "G" -> "R" [] b = "T" -> "Y"  \* compatible two-base code
Feat(name, kind, named, strand, segs, cstart, gbform) ==
  [name |-> name, kind |-> kind, named |-> named, strand |-> strand, segs |-> segs, cstart |-> cstart, gbform |-> gbform]
Layouts == <<
  << Feat("g1", "CDS", TRUE, 1, <<<<4, 15>>>>, 1, 0), Feat("g2", "CDS", TRUE, -1, <<<<19, 30>>>>, 1, 0) >>,
  << Feat("g1", "CDS", TRUE, 1, <<<<4, 9>>, <<13, 15>>>>, 1, 0), Feat("g2", "CDS", TRUE, -1, <<<<25, 30>>, <<19, 24>>>>, 1, 0) >>,
  << Feat("g1", "CDS", TRUE, 1, <<<<4, 8>>, <<9, 15>>>>, 1, 0), Feat("g2", "CDS", TRUE, -1, <<<<24, 30>>, <<19, 23>>>>, 1, 1) >>,
  << Feat("g1", "CDS", TRUE, 1, <<<<4, 15>>>>, 1, 0), Feat("nsp1", "mat", TRUE, 1, <<<<4, 12>>>>, 1, 0), Feat("g2", "CDS", TRUE, -1, <<<<25, 30>>, <<19, 24>>>>, 1, 1) >>,
  << Feat("g1", "CDS", TRUE, 1, <<<<3, 15>>>>, 2, 0), Feat("g2", "CDS", TRUE, -1, <<<<19, 30>>>>, 1, 0) >>,
  << Feat("g1", "CDS", TRUE, 1, <<<<4, 10>>, <<11, 15>>>>, 1, 0) >>,
  << Feat("orf", "CDS", FALSE, 1, <<<<4, 15>>>>, 1, 0), Feat("nsp1", "mat", TRUE, 1, <<<<4, 9>>>>, 1, 0), Feat("g2", "CDS", TRUE, -1, <<<<19, 30>>>>, 1, 0) >>,
  << Feat("g1", "CDS", TRUE, 1, <<<<4, 15>>>>, 1, 0), Feat("g1b", "CDS", TRUE, 1, <<<<7, 15>>>>, 1, 0) >>,
  \* two genes from the same start codon, the first one spliced: in a coordinate-sorted GFF3 its rows are not adjacent
  << Feat("gL", "CDS", TRUE, 1, <<<<4, 9>>, <<13, 15>>>>, 1, 0), Feat("gS", "CDS", TRUE, 1, <<<<4, 15>>>>, 1, 0), Feat("g2", "CDS", TRUE, -1, <<<<25, 30>>, <<19, 24>>>>, 1, 0) >>,
  \* a forward-strand join whose first segment lies downstream of its second (a gene across the origin of a circular genome)
  << Feat("g1", "CDS", TRUE, 1, <<<<19, 21>>, <<4, 15>>>>, 1, 0) >>,
  \* reverse-strand genes whose frame does not start at their first base: codon_start 3 / 2, single and joined
  << Feat("g1", "CDS", TRUE, 1, <<<<4, 15>>>>, 1, 0), Feat("g2", "CDS", TRUE, -1, <<<<19, 29>>>>, 3, 0) >>,
  << Feat("g1", "CDS", TRUE, 1, <<<<2, 15>>>>, 3, 0), Feat("g2", "CDS", TRUE, -1, <<<<25, 28>>, <<19, 24>>>>, 2, 0) >>,
  << Feat("g2", "CDS", TRUE, -1, <<<<25, 29>>, <<19, 24>>>>, 3, 1) >>,
  \* two CDS of one gene (same /gene, same Name), the second inside the span of the first but read differently (pp1ab / pp1a in RefSeq)
  << Feat("g1", "CDS", TRUE, 1, <<<<4, 9>>, <<13, 15>>>>, 1, 0), Feat("g1", "CDS", TRUE, 1, <<<<4, 15>>>>, 1, 0), Feat("g2", "CDS", TRUE, -1, <<<<19, 30>>>>, 1, 0) >>,
  \* features listed from the far end of the genome to the near one (a GenBank table need not be sorted; GFF3 rows are sorted by the reader)
  << Feat("g2", "CDS", TRUE, -1, <<<<19, 30>>>>, 1, 0), Feat("g1", "CDS", TRUE, 1, <<<<4, 15>>>>, 1, 0) >>,
  << Feat("g2", "CDS", TRUE, -1, <<<<25, 30>>, <<19, 24>>>>, 1, 0), Feat("g1b", "CDS", TRUE, 1, <<<<7, 15>>>>, 1, 0), Feat("g1", "CDS", TRUE, 1, <<<<4, 9>>, <<13, 15>>>>, 1, 0) >>
>>
GffOnly(k) == k = 7          \* an unnamed CDS has no GenBank form

(* gapping of the reference row: after how many reference bases gap columns are inserted *)
Gappings == << <<>>, << <<9, 2>>, <<20, 1>> >>, << <<0, 1>>, <<12, 3>>, <<30, 2>> >> >>
RECURSIVE GapRow(_, _, _)
GapRow(g, p, fill) ==      \* row positions p+1.. with the gap columns of g spliced in; fill(i, j) is the symbol in the j-th column after base i
  (LET hits == {x \in 1..Len(g) : g[x][1] = p} IN
     IF hits = {} THEN <<>> ELSE LET x == CHOOSE x \in hits : TRUE IN [j \in 1..g[x][2] |-> fill[1][x]])
  \o (IF p = Len(Genome) THEN <<>> ELSE <<fill[2][p + 1]>> \o GapRow(g, p + 1, fill))
RefRow(g) == GapRow(g, 0, <<[x \in 1..Len(g) |-> "-"], Genome>>)
QRow(g, seq, insSym) == GapRow(g, 0, <<[x \in 1..Len(g) |-> insSym], seq>>)
QRowV(g, seq, syms) == GapRow(g, 0, <<syms, seq>>)      \* a different symbol (or "-") per gap block
Change(p, sym) == [i \in 1..Len(Genome) |-> IF i = p THEN sym ELSE Genome[i]]
Change2(p, q, s1, s2) == [i \in 1..Len(Genome) |-> IF i = p THEN s1 ELSE IF i = q THEN s2 ELSE Genome[i]]
Singles == [k \in 1..(7 * Len(Genome)) |->      \* every position to each of the three other bases, an incompatible and a compatible code, N, gap
              LET p == ((k - 1) \div 7) + 1  w == (k - 1) % 7 IN
              Change(p, CASE w = 0 -> NextBase(Genome[p]) [] w = 1 -> Amb(Genome[p]) [] w = 2 -> AmbCompat(Genome[p]) [] w = 3 -> "N" [] w = 4 -> "-"
                          [] w = 5 -> NextBase(NextBase(Genome[p])) [] w = 6 -> NextBase(NextBase(NextBase(Genome[p]))))]
Doubles == << Change2(7, 8, "A", "A"), Change2(8, 9, "T", "C"), Change2(7, 9, "C", "G"), Change2(9, 10, "A", "C"),
              Change2(22, 24, "A", "T"), Change2(23, 24, "G", "N"), Change2(4, 30, "C", "C"), Change2(10, 11, "-", "-"),
              Change2(13, 14, "C", "-"), Change2(1, 2, "-", "-"), Change2(29, 30, "-", "-"), Change2(12, 13, "G", "G") >>
Rows(g) == [k \in 1..Len(Singles) |-> QRow(g, Singles[k], IF k % 7 = 0 THEN "A" ELSE "-")]
           \o [k \in 1..Len(Doubles) |-> QRow(g, Doubles[k], IF k % 2 = 0 THEN "C" ELSE "-")]
           \o << QRow(g, Genome, "G"), QRow(g, Genome, "-"), QRow(g, Change(8, "T"), "-"), QRow(g, Change2(8, 9, "T", "A"), "-"), QRow(g, Change(8, "T"), "-") >>
Run(cmd, anno, app, s, e, agg, thr, t, stdin) == [cmd |-> cmd, anno |-> anno, append |-> app, s |-> s, e |-> e, agg |-> agg, thr |-> thr, t |-> t, stdin |-> stdin]
RunsFor(k) ==
  (IF GffOnly(k) THEN <<>> ELSE
     << Run("variants", "gb", FALSE, -1, -1, FALSE, 0, 1, FALSE), Run("variants", "gb", TRUE, -1, -1, FALSE, 0, 2, FALSE),
        Run("samvar", "gb", TRUE, -1, -1, FALSE, 0, 2, FALSE), Run("topa-variants", "gb", TRUE, -1, -1, FALSE, 0, 1, FALSE),
        Run("variants", "gb", TRUE, 7, 22, FALSE, 0, 1, FALSE), Run("variants", "gb", FALSE, 10, -1, FALSE, 0, 1, FALSE),
        Run("variants", "gb", FALSE, -1, 12, FALSE, 0, 1, FALSE), Run("samvar", "gb", FALSE, 10, -1, FALSE, 0, 1, FALSE),
        Run("variants", "gb", TRUE, -1, -1, TRUE, 0, 3, FALSE), Run("variants", "gb", FALSE, -1, -1, TRUE, 12, 1, FALSE),
        Run("variants", "gb", TRUE, -1, -1, FALSE, 0, 1, TRUE), Run("samvar", "gb", TRUE, -1, -1, TRUE, 6, 2, FALSE),
        Run("samvar", "gb", TRUE, -1, 17, FALSE, 0, 1, FALSE), Run("samvar", "gb", TRUE, 2, 16, FALSE, 0, 2, FALSE),
        Run("samvar", "gb", TRUE, 10, -1, FALSE, 0, 1, FALSE),
        Run("topa-variants", "gb", TRUE, -1, 17, FALSE, 0, 1, FALSE), Run("variants", "gb", FALSE, 2, 16, FALSE, 0, 1, FALSE),
        \* --aggregate under a window: one bound, the other, both (the counted rows are the windowed per-sequence rows)
        Run("variants", "gb", FALSE, 10, -1, TRUE, 0, 1, FALSE), Run("variants", "gb", FALSE, -1, 12, TRUE, 0, 2, FALSE),
        Run("variants", "gb", FALSE, 2, 16, TRUE, 12, 1, FALSE), Run("samvar", "gb", TRUE, -1, 17, TRUE, 0, 1, FALSE) >>)
  \o << Run("variants", "gff", FALSE, -1, -1, FALSE, 0, 1, FALSE), Run("variants", "gff", TRUE, -1, -1, FALSE, 0, 2, FALSE),
        Run("samvar", "gff", TRUE, -1, -1, FALSE, 0, 1, FALSE), Run("samvar-annoref", "gff", TRUE, -1, -1, FALSE, 0, 1, FALSE) >>
  \o (IF k = 10 THEN <<>> ELSE      \* (rows in coordinate order do not describe a gene whose first segment lies downstream)
      << Run("variants", "gffs", TRUE, -1, -1, FALSE, 0, 1, FALSE), Run("samvar", "gffs", TRUE, -1, -1, FALSE, 0, 2, FALSE),
         Run("variants", "gffs", FALSE, -1, -1, TRUE, 0, 1, FALSE) >>)
(* consecutive queries whose insertions have the same total length but sit at different places (same alignment width) *)
ShiftGap == << <<5, 3>>, <<20, 3>> >>
ShiftRows == << QRowV(ShiftGap, Change(17, "C"), <<"A", "-">>), QRowV(ShiftGap, Change(8, "A"), <<"-", "G">>),
                QRowV(ShiftGap, Change(24, "T"), <<"C", "-">>), QRowV(ShiftGap, Change(11, "C"), <<"-", "T">>),
                QRowV(ShiftGap, Genome, <<"A", "-">>), QRowV(ShiftGap, Genome, <<"-", "A">>) >>
ShiftVecs == {[id |-> "shift-" \o ToString(k), kind |-> "anno", R |-> RefRow(ShiftGap), qs |-> ShiftRows, feats |-> Layouts[k], runs |-> RunsFor(k)] : k \in {1, 2, 4}}
RefNamedVecs == {[id |-> "refnamed-" \o ToString(k), kind |-> "anno", R |-> RefRow(Gappings[1]), qs |-> SubSeq(Rows(Gappings[1]), 30, 50), feats |-> Layouts[k],
                  refnamed |-> 1, runs |-> << Run("variants-annoref", "gb", TRUE, -1, -1, FALSE, 0, 1, FALSE), Run("variants-annoref", "gff", TRUE, -1, -1, FALSE, 0, 2, FALSE),
                                             Run("samvar-annoref", "gb", TRUE, -1, -1, FALSE, 0, 1, FALSE), Run("samvar-annoref", "gff", TRUE, -1, -1, FALSE, 0, 2, FALSE),
                                             Run("samvar-annoref", "gb", FALSE, -1, -1, TRUE, 0, 1, FALSE), Run("samvar-annoref", "gff", FALSE, -1, -1, TRUE, 0, 1, FALSE) >>] : k \in {1, 2}}
AnnoVecs == ShiftVecs \cup RefNamedVecs \cup {[id |-> "anno-" \o ToString(k) \o "-" \o ToString(g), kind |-> "anno", R |-> RefRow(Gappings[g]), qs |-> Rows(Gappings[g]),
              feats |-> Layouts[k], runs |-> RunsFor(k)] : k \in 1..Len(Layouts), g \in 1..Len(Gappings)}

(* ---- indel vectors ----------------------------------------------------------------------- *)
Classes == {"g", "i", "d", "b"}
ClsR(c) == [k \in 1..Len(c) |-> IF c[k] \in {"g", "i"} THEN "-" ELSE (IF k % 2 = 0 THEN "A" ELSE "C")]
ClsQ(c) == [k \in 1..Len(c) |-> IF c[k] \in {"g", "d"} THEN "-" ELSE (IF k % 2 = 0 THEN "A" ELSE "C")]
ClsO(c) == [k \in 1..Len(c) |-> IF c[k] = "g" THEN "T" ELSE IF c[k] \in {"i"} THEN "-" ELSE (IF k % 2 = 0 THEN "A" ELSE "C")]
NBases(c) == Cardinality({k \in 1..Len(c) : c[k] \in {"d", "b"}})
ClsName(c) == LET RECURSIVE S(_) S(k) == IF k = 0 THEN "" ELSE S(k - 1) \o c[k] IN S(Len(c))
IndelRuns == << Run("variants", "gb", FALSE, -1, -1, FALSE, 0, 1, FALSE), Run("samvar", "gb", FALSE, -1, -1, FALSE, 0, 1, FALSE),
                Run("topa-variants", "gb", FALSE, -1, -1, FALSE, 0, 1, FALSE) >>
IndelVecs == {[id |-> "cls-" \o ClsName(c), kind |-> "indel", R |-> ClsR(c), qs |-> <<ClsQ(c), ClsO(c)>>, feats |-> <<>>, runs |-> IndelRuns]
              : c \in {c \in UNION {[1..n -> Classes] : n \in 1..MaxCls} : NBases(c) >= 1}}
VARIABLE v
Init == v \in AnnoVecs \cup IndelVecs
Next == UNCHANGED v
EmitInv == EmitVec(v)
=============================================================================
