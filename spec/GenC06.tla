------------------------------- MODULE GenC06 -------------------------------
(* Spec -> code for C06: every sequence of <= MaxT abstract targets over        *)
(* distance {0,1,2,undefined} x completeness {1,2,3}, rendered as real          *)
(* alignments, for every -n / -d setting.  The validator never sees the        *)
(* abstract values: it recomputes distance and completeness from the sequences. *)
EXTENDS Integers, Sequences, FiniteSets, TLC, GenBase
CONSTANTS MaxT
U == 9
Ctx == <<"A","C","G","T","A","C","G","T">>
Q1 == Ctx \o <<"A","A">> \o <<"N","N">>
Q2 == Ctx \o <<"C","C">> \o <<"N","N">>
VarPart(d)  == [j \in 1..2 |-> IF j <= d THEN "C" ELSE "A"]
CompPart(c) == CASE c = 3 -> <<"R","R">> [] c = 2 -> <<"R","B">> [] c = 1 -> <<"B","B">>   \* no A/C/G/T: base counts (tn93) unaffected
Render(t) == (IF t.d = U THEN [j \in 1..10 |-> "N"] ELSE Ctx \o VarPart(t.d)) \o CompPart(t.c)
Target == [d : {0, 1, 2, U}, c : 1..3]
Settings == {<<0, -1>>, <<1, -1>>, <<2, -1>>, <<3, -1>>, <<0, 1>>, <<1, 1>>, <<2, 1>>, <<3, 1>>}   \* <<K, D>>
DText(m, D) == IF D = -1 THEN -1 ELSE IF m = "snp" THEN D ELSE D * 100     \* raw: k differences of 10 compared sites
Code(ts) == LET RECURSIVE H(_) H(k) == IF k = 0 THEN 0 ELSE (H(k - 1) * 13 + ts[k].d * 3 + ts[k].c) % 100000 IN H(Len(ts))
Keep(m, K, D, ts) ==
  IF Thorough THEN (m # "tn93" \/ D = -1)
  ELSE \/ m = "raw"
       \/ m = "snp" /\ D = -1 /\ K \in {0, 2}
       \/ m = "tn93" /\ D = -1 /\ K \in {0, 2}
VARIABLE v
Init == \E n \in 1..MaxT : \E ts \in [1..n -> Target] : \E s \in Settings : \E m \in {"raw", "snp", "tn93"} : \E nq \in 1..2 :
          /\ Keep(m, s[1], s[2], ts)
          /\ (nq = 2 => (Code(ts) % 3 = 0))
          /\ v = [id |-> m \o "-" \o ToString(s[1]) \o "-" \o ToString(s[2]) \o "-" \o ToString(nq) \o "-" \o ToString(n) \o "-" \o ToString(Code(ts)),
                  queries |-> IF nq = 1 THEN <<Q1>> ELSE <<Q1, Q2>>,
                  targets |-> [k \in 1..n |-> Render(ts[k])],
                  measure |-> m, n |-> s[1], d |-> DText(m, s[2]),
                  table |-> (n % 2 = 1), threads |-> IF Code(ts) % 2 = 0 THEN 1 ELSE 4, mono |-> TRUE]
Next == UNCHANGED v
EmitInv == EmitVec(v)
=============================================================================
