INIT Init
NEXT Next
INVARIANT CodonInv
INVARIANT PairInv
INVARIANT CharInv
INVARIANT PairDistInv
INVARIANT DecInv
INVARIANT ThmInv
CHECK_DEADLOCK FALSE
