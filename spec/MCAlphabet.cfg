INIT Init
NEXT Next
INVARIANT CodonInv
INVARIANT PairInv
INVARIANT CharInv
INVARIANT ThmInv
CHECK_DEADLOCK FALSE
