CONSTANTS MaxDepth = 2  MaxKids = 2
  Leaves <- LeavesSmall
INIT Init
NEXT Next
INVARIANTS Sound Complete StrandOK
CHECK_DEADLOCK FALSE
