SPECIFICATION Spec
CONSTANTS
  Q = 2
  NT = 2
  Cap = 2
  Faults = {"rd", "width", "wr"}
  WPR = 3
  IgnoreRowErr = FALSE
  IgnoreHdrErr = FALSE
INVARIANT DoneOK
INVARIANT EveryTargetToEveryQuery
INVARIANT ErrSafety
PROPERTY Termination
PROPERTY ErrReported
CHECK_DEADLOCK FALSE
